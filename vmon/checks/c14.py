"""C14 — blocks and headers round-trip, block ids and merkle roots follow the Bitcoin definition, merkleblock proofs."""
import functools
import hashlib
import io
import signal

from vmon.probe import shard_rng, observe
from vmon.refs import merkle as RM, pmt as RP, blockser as RB, txser as RT, p2p as P2P
from vmon.gen import blockgen as G

PROPERTY = "C14"
PRELOAD_NETWORK_ORDERS = [["btc", "xtn", "ltc", "bch", "grs", "doge", "dash", "btg"], ["btg", "grs", "bch", "doge", "ltc", "xtn", "btc"]]
LEVEL = "exploration"
TECHNIQUE = ("differential runtime monitor vs independent block/merkle/partial-merkle-tree references; exhaustive match subsets "
             "of small trees and exhaustive single-position proof corruptions")
RULE = ("cases: (block class BTC/LTC, block bytes built by the reference serialiser for 1..33, 64, 65, 127, 129, 1000 transactions "
        "incl. segwit and boundary header fields); blocks whose transaction list was altered after the root was fixed; hash lists of "
        "every length; merkleblock messages built by refs/pmt + refs/p2p for every match subset of trees <= 11 leaves (quick; 14 thorough; sampled "
        "beyond) and every single-position corruption of each (hash bit, hash appended/inserted/removed, padding bit, extra "
        "flag byte, header root), plus forged CVE-2012-2459 duplicate proofs at every odd level. Distinct by the bytes handed to "
        "pycoin; non-trivial when the block/list has > 1 element or the proof was corrupted or matches something. Histories "
        "(one process, shared state): sequences of merkle(list[, hash_f]) calls over overlapping lists (whole, prefixes, even "
        "suffixes, extended, last replaced, reversed; the same list objects reused) with the combining function drawn from a "
        "family (default, pycoin's and an independent double-SHA256 positional / by keyword, SHA-256, tagged, lambdas, partials, "
        "bound methods, an unhashable callable object, non-hash functions) in both orders; blocks parsed after other trees were "
        "computed over their txids, incl. blocks carrying the other function's root (must be refused); one Block object taken "
        "through set_txs(good/bad, checked/unchecked) / check_merkle_hash / as_bin, and through set_nonce / hash / id / as_bin / "
        "as_blockheader sequences incl. returning to an earlier nonce; honest proofs re-parsed after their corruptions. "
        "Object kinds x entry points: for groups of 1-3 honest blocks, every way the public API yields a header-bearing object "
        "(parse_as_header, constructor, parse(include_transactions=False), as_blockheader() of a full block / of a header, full "
        "block with set_txs([]), header / block objects returned by message.parse of 'headers' / 'merkleblock' / 'block', "
        "from_bin, parse, parse(include_offsets), constructor + set_txs) x every entry point in a shuffled order with repeats and "
        "a set_nonce in between (stream_header, stream, as_bin, as_hex, hash, id, as_blockheader, independence of the "
        "as_blockheader() result, check_merkle_hash, and the object handed to message.pack as `header` of an honest 'merkleblock' "
        "proof, as an entry of 'headers', as `block` of 'block': packed bytes = reference wire encoding, parsed back by the "
        "library), then one 'headers' message over all objects of all kinds and the objects unchanged by packing; mismatching "
        "blocks also through message.parse('block'). "
        "Special constants: every header field x every special value (all-zero, all-ones, single-bit, half-zero hashes; 0, 1, "
        "2**31-1, 2**31, 2**32-1 integers; all at once) in honest blocks, in blocks over other transactions and with one root bit "
        "flipped; header roots replaced by special constants and by other hashes of the same block (previous hash, a txid, the "
        "header hash, single SHA-256), alone and inside an otherwise all-zero header; proofs with such headers / roots / "
        "transaction ids; merkle() over lists of special constants. Counts on both sides of every compact-size boundary: 252-254 "
        "and 65535-65536 transactions of a block, 252-254 and 65535-65537 hashes of a proof and entries of 'headers' (with per-entry counts up to 2**64-1), "
        "252-254 flag bytes, 65535-65537 entries of merkle(). "
        "Refused calls (shards errpath-*): one full block object and one header object live through a sequence in which every "
        "kind of call the library rightly refuses part-way (message.pack with a missing trailing keyword, values that do not fit "
        "their wire field, None / str / float / foreign-network objects at every field position of version, reject, merkleblock, "
        "headers, block, getheaders, ping, inv, tx, blocktxn, filterload, addr; truncated / mismatching / non-bytes input to "
        "message.parse, from_bin, parse, parse_as_header; a caller's stream that refuses after k bytes; hash / id / as_bin of an "
        "unstreamable header; set_nonce(2**32 / None) and set_txs([.., None]) / set_txs(mismatching) on the judged objects, undone "
        "through the same public method; merkle() over refused lists and with a combining function that raises part-way), on the "
        "judged network and on the other network in the same process, is followed by judged calls (the object entry points above, "
        "the three packers, honest / corrupted proofs, from_bin, mismatching block, merkle, a fresh header). Caller-owned "
        "mutable arguments: merkle(list / list of bytearray / tuple), from_bin / message.parse(bytearray) with the buffer "
        "overwritten afterwards, pack(lists / bytearrays / tuples), set_txs(list): argument unchanged, same answer on the second "
        "call; lists returned by the parser edited by the caller, then the same bytes parsed again. "
        "Long run (shard longrun): > 2**16 + 100 operations on ONE header object and ONE block object (set_nonce / hash, every "
        "61st id / as_bin / check_merkle_hash), of merkle() on fresh and repeated 2- and 3-entry lists, of one network's "
        "merkleblock parser (every 16th with a wrong root) and packer, and of from_bin on one-transaction blocks, each against an "
        "incrementally kept reference.")
ASSUMPTIONS = [
    "reference serialisers/merkle/partial merkle tree in vmon/refs (blockser, txser, merkle, pmt, p2p) are correct; self-tested on "
    "every run against the genesis header id, a real 3-transaction mainnet block, blocks 170/71038 roots, the developer-reference "
    "merkleblock example and build->extract closure over all subsets of trees <= 9 leaves",
    "double-SHA256 is collision free on the generated inputs (an altered hash or transaction changes the computed root)",
    "'rejected' is any exception; for the merkle-root mismatch of a parsed block the exception class is recorded but not demanded",
    "blocks have >= 1 transaction and transactions >= 1 input (quantifier: blocks of 1..N transactions)",
    "a set bit in a flag byte appended after the last needed one is read as 'set padding bits remain'; an appended all-zero flag "
    "byte, flag flips inside the used range, truncated flags and a changed total_transactions are not decided by the statement: "
    "they are compared with refs/pmt.extract and only reported as notes",
    "the CVE-2012-2459 proofs (claimed larger block with the last subtree duplicated, same root) must be rejected",
    "merkle(hashes, hash_f) with a caller-supplied combining function is read as 'the same tree (odd levels pair the last entry "
    "with itself) with node = hash_f(left || right)'; merkle(hashes) and merkle(hashes, <any double-SHA256>) are the Bitcoin root "
    "whatever was computed earlier in the process",
    "a Block object is judged at each point of a history by its current header fields and its current transaction list as set "
    "through the public methods (set_txs, set_nonce); attribute assignment and in-place edits of block.txs are not used",
    "a Block object without transactions (never given any, or after set_txs([])) is a header: stream/as_bin/as_hex give its 80 "
    "bytes; an object with transactions gives header, compact-size count, transactions; stream_header, hash, id and "
    "as_blockheader() give the header of either kind",
    "any object of the network's block class is a valid `header` argument of message.pack('merkleblock') / entry of "
    "message.pack('headers') and stands for its 80-byte header there (that is what the packer's header streaming function is "
    "for); the packer refusing the object returned by the library's own as_blockheader() is recorded as finding F14-a; bytes "
    "that differ from the reference encoding are reported and not fed to the library's parser",
    "the object returned by as_blockheader() is independent of the block: set_nonce on one does not change the other",
    "id() and as_hex() are hexadecimal text of the demanded bytes; the letter case of the digits is not demanded",
    "LTC blocks are generated in the Bitcoin wire format (legacy and segwit transactions); Litecoin's MWEB transaction flag (0x08) "
    "and the MWEB block extension have no reference here and are outside the quantified domain",
    "a call the library refuses (any exception) is never judged by itself unless the statement demands the refusal; what is judged "
    "is every answer given AFTER it, which must be the answer given without it. set_nonce with a value that does not fit and "
    "set_txs with a list that is refused leave the object as the library leaves it; the judged sequence continues only after the "
    "same public method was called again with a valid value (that call must succeed)",
    "list / tuple / bytearray arguments that the library accepts today are caller-owned: a call does not change them and the same "
    "object handed over again gives the same answer; an object parsed out of a caller's bytearray is the block that was in the "
    "buffer at the time of the call (the caller may reuse its buffer); forms the library refuses are counted, not judged",
    "every message.parse call runs under a per-call CPU-time alarm (20 CPU-seconds, user time of the worker, for inputs of at "
    "most ~100 kB that cost milliseconds): a call that does not return is neither 'accepted' nor 'rejected' and is reported as "
    "*.does_not_return; after the third such call a shard ends its workload early",
]
EXPLANATION = ("every block/header/merkle/merkleblock call on the real library is compared with the reference; honest proofs must be "
               "accepted with exactly the matched ids in order, listed corruptions must raise")
TIMEOUT = {"quick": 1800, "thorough": 3 * 3600}

BLOCK_SIZES = list(range(1, 34)) + [64, 65, 127, 129]
EXH_LIMIT = {"quick": 11, "thorough": 14}
SAMPLED_SIZES = {"quick": list(range(11, 34)) + [64, 65, 127, 129, 1000],
                 "thorough": list(range(14, 68)) + [127, 128, 129, 255, 256, 257, 1000, 1023, 1025, 2049]}
N_PROOF_SHARDS = 11


def exhaustive(tier):
    return False


def configurations(tier):
    return ["BTC network.block/network.message", "LTC network.block (LTCBlock/LTCTx)/network.message"]


def plan(tier, seed):
    q = tier == "quick"
    shards = [{"kind": "blocks", "net": "BTC", "reps": 2 if q else 40, "label": "blocks-BTC-a", "csize_counts": [252, 254]},
              {"kind": "blocks", "net": "BTC", "reps": 2 if q else 40, "label": "blocks-BTC-b", "csize_counts": [253]},
              {"kind": "blocks", "net": "LTC", "reps": 2 if q else 40, "label": "blocks-LTC", "csize_counts": [252, 253]},
              {"kind": "merkle", "upto": 400 if q else 2100, "label": "merkle"},
              {"kind": "cve", "upto": 40 if q else 140, "label": "cve"},
              {"kind": "history", "net": "BTC", "reps": 4 if q else 100, "label": "history-BTC"},
              {"kind": "history", "net": "LTC", "reps": 4 if q else 100, "label": "history-LTC"},
              {"kind": "kinds", "net": "BTC", "reps": 8 if q else 150, "label": "kinds-BTC"},
              {"kind": "kinds", "net": "LTC", "reps": 8 if q else 150, "label": "kinds-LTC"}]
    shards += [{"kind": "errpath", "net": "BTC", "reps": 36 if q else 1200, "label": "errpath-BTC"},
               {"kind": "errpath", "net": "LTC", "reps": 36 if q else 1200, "label": "errpath-LTC"}]
    for p in range(N_PROOF_SHARDS):
        # rng_shard: the proof shards keep the random streams they had before other shards were added in front of them
        shards.append({"kind": "proofs", "part": p, "parts": N_PROOF_SHARDS, "sampled": 96 if q else 8000,
                       "label": "proofs-%d" % p})
    # rng_shard: every shard keeps the random stream it had before shards were added / reordered (new shards: 100+)
    old = [sh for sh in shards if sh["kind"] not in ("errpath",)]
    for k, sh in enumerate(old):
        sh["rng_shard"] = k
    for k, sh in enumerate(sh for sh in shards if sh["kind"] == "errpath"):
        sh["rng_shard"] = 100 + k
    # the longest shard is started first
    return [{"kind": "longrun", "count": (1 << 16) + 100 if q else (1 << 17) + 100, "label": "longrun", "rng_shard": 110}] + shards


def _rs(spec):
    return spec.get("rng_shard", spec["shard"])


def selftest(rec):
    return {"merkle": RM.selftest(), "pmt": RP.selftest(), "blockser": RB.selftest(), "txser": RT.selftest(),
            "p2p": P2P.selftest()}


# ---------------------------------------------------------------------------------------------

_NETS = {}


def _net(sym):
    if sym not in _NETS:
        if sym == "BTC":
            from pycoin.symbols.btc import network
        elif sym == "LTC":
            from pycoin.symbols.ltc import network
        else:
            raise ValueError(sym)
        _NETS[sym] = network
    return _NETS[sym]


def _hdr_fields(b):
    return {"version": b.version, "prev": bytes(b.previous_block_hash), "root": bytes(b.merkle_root), "time": b.timestamp,
            "bits": b.difficulty, "nonce": b.nonce}


def _hex_is(got, want_hex):
    """hex text names these bytes (the statement fixes the value, not the letter case of its display)"""
    return isinstance(got, str) and got.lower() == want_hex


class _CallBudget(BaseException):
    """raised by the CPU-time alarm inside a library call (BaseException: not swallowed by `except Exception`)"""


class _AbortShard(Exception):
    pass


# a library call on a few hundred bytes .. 100 kB of wire data costs milliseconds of CPU. A parser that was led astray (e.g. reads
# a count out of the wrong bytes and then loops 2**32 times over an exhausted stream) must not keep the shard busy until the
# watchdog: the call runs under a CPU-time alarm (ITIMER_VIRTUAL: user CPU of this process, independent of machine load),
# 'did not return' is reported, and the shard moves on. After the first such event the limit drops; after the third the
# shard's workload ends (the verdict is already 'violated').
CALL_CPU_LIMITS = (20.0, 3.0, 3.0)
_BUDGET = {"hits": 0, "installed": False}


def _on_alarm(signum, frame):
    raise _CallBudget()


def bounded(fn, *a, **kw):
    """observe(fn, ...) under the CPU-time alarm -> ('ok', v) / ('exc', e) / ('budget', cpu seconds allowed)"""
    if _BUDGET["hits"] >= len(CALL_CPU_LIMITS):
        raise _AbortShard("%d library calls did not return within their CPU budget" % _BUDGET["hits"])
    if not _BUDGET["installed"]:
        try:
            signal.signal(signal.SIGVTALRM, _on_alarm)
        except ValueError:                           # not the main thread: no alarm available, plain call
            return observe(fn, *a, **kw)
        _BUDGET["installed"] = True
    limit = CALL_CPU_LIMITS[_BUDGET["hits"]]
    try:
        signal.setitimer(signal.ITIMER_VIRTUAL, limit)
        try:
            return observe(fn, *a, **kw)
        finally:
            signal.setitimer(signal.ITIMER_VIRTUAL, 0)
    except _CallBudget:
        signal.setitimer(signal.ITIMER_VIRTUAL, 0)
        _BUDGET["hits"] += 1
        return ("budget", limit)


def _no_return(rec, mech, case, limit, expected):
    rec.ev("call_did_not_return")
    rec.violation(mech, case, "no result within %g CPU-seconds" % limit, expected)


def judge_header(net, data, rec):
    """80 header bytes: parse_as_header -> fields, stream_header/as_bin identity, hash/id."""
    Block = _net(net).block
    want = RB.parse_header(data)
    case = {"kind": "header", "net": net, "data": data}
    rec.case(("header", net, data))
    rec.ev("cfg:%s:header" % net)
    rec.ev("Block.parse_as_header")
    f = io.BytesIO(data)
    st, b = observe(Block.parse_as_header, f)
    if st != "ok":
        rec.violation("header.parse_raises", case, b, "header object")
        return
    if f.tell() != 80:
        rec.violation("header.parse_consumed_wrong_length", case, f.tell(), 80)
    got = _hdr_fields(b)
    if got != want:
        rec.violation("header.field_mismatch", case, got, want)
    rec.ev("Block.stream_header")
    out = io.BytesIO()
    st, e = observe(b.stream_header, out)
    if st != "ok" or out.getvalue() != data:
        rec.violation("header.roundtrip_mismatch", case, e if st != "ok" else out.getvalue(), data)
    rec.ev("Block.as_bin")
    st, ab = observe(b.as_bin)
    if st != "ok" or ab != data:
        rec.violation("header.as_bin_mismatch", case, ab, data)
    _judge_id(b, data, case, rec)
    # constructor path: the documented six fields in the documented order
    st, b2 = observe(Block, want["version"], want["prev"], want["root"], want["time"], want["bits"], want["nonce"])
    if st != "ok":
        rec.violation("header.constructor_raises", case, b2, "header object")
    else:
        st, ab = observe(b2.as_bin)
        if st != "ok" or ab != data:
            rec.violation("header.constructed_as_bin_mismatch", case, ab, data)
        _judge_id(b2, data, case, rec)


def _judge_id(b, data, case, rec):
    want_hash = RT.dsha(data[:80])
    rec.ev("Block.hash")
    st, h = observe(b.hash)
    if st != "ok" or bytes(h) != want_hash:
        rec.violation("block.hash_mismatch", case, h, want_hash)
    rec.ev("Block.id")
    st, i = observe(b.id)
    if st != "ok" or not _hex_is(i, want_hash[::-1].hex()):
        rec.violation("block.id_mismatch", case, i, want_hash[::-1].hex())


def judge_block(net, data, rec, sample=False, pre=None):
    """Full block bytes whose transactions hash to the header root (checked by the reference first).
    pre: names of combining functions with which merkle(txids, f) is called first (other trees over the same leaves)."""
    N = _net(net)
    Block = N.block
    header, txs, used = RB.parse_block(data)
    case = {"kind": "block", "net": net, "data": data}
    if RB.root_of(txs) != header["root"]:
        raise RuntimeError("judge_block called with a block whose root does not match (generator error)")
    if pre:
        case["pre"] = list(pre)
        _pre_calls([RT.txid_bytes(t) for t in txs], pre, case, rec)
    rec.case(("block", net, data, tuple(pre or ())), nontrivial=len(txs) > 1)
    rec.ev("cfg:%s:block" % net)
    rec.ev("Block.from_bin")
    st, b = observe(Block.from_bin, data)
    if st != "ok":
        rec.violation("block.parse_rejects_valid", case, b, "block of %d txs" % len(txs))
        return
    rec.ev("Block.as_bin")
    st, out = observe(b.as_bin)
    if st != "ok" or out != data:
        rec.violation("block.roundtrip_mismatch", case, out, data)
    got = _hdr_fields(b)
    if got != header:
        rec.violation("block.header_field_mismatch", case, got, header)
    if len(b.txs) != len(txs):
        rec.violation("block.tx_count_mismatch", case, len(b.txs), len(txs))
    else:
        for k, (t, want) in enumerate(zip(b.txs, txs)):
            st, tb = observe(t.as_bin)
            if st != "ok" or tb != RT.serialize(want):
                rec.violation("block.tx_mismatch", case, {"index": k, "got": tb}, RT.serialize(want))
                break
    _judge_id(b, data, case, rec)
    # Block.parse on a stream: consumes exactly the block
    rec.ev("Block.parse")
    f = io.BytesIO(data + b"\xee" * 7)
    st, b2 = observe(Block.parse, f)
    if st != "ok":
        rec.violation("block.parse_rejects_valid", case, b2, "block")
    else:
        if f.tell() != len(data):
            rec.violation("block.parse_consumed_wrong_length", case, f.tell(), len(data))
        st, out = observe(b2.as_bin)
        if st != "ok" or out != data:
            rec.violation("block.roundtrip_mismatch", case, out, data)
    # non-default argument: offsets recorded while parsing; the block is the same block
    rec.ev("Block.parse(include_offsets)")
    st, b3 = observe(Block.parse, io.BytesIO(data), include_offsets=True)
    if st != "ok":
        rec.violation("block.parse_rejects_valid", case, b3, "block")
    else:
        st, out = observe(b3.as_bin)
        if st != "ok" or out != data:
            rec.violation("block.roundtrip_mismatch", case, out, data)
    # the same bytes arriving as a 'block' message
    rec.ev("message.parse(block)")
    st, d = bounded(N.message.parse, "block", data)
    if st == "budget":
        _no_return(rec, "block.message_parse_does_not_return", case, d, "block")
    elif st != "ok":
        rec.violation("block.parse_rejects_valid", case, d, "block")
    else:
        st, out = observe(d["block"].as_bin)
        if st != "ok" or out != data:
            rec.violation("block.roundtrip_mismatch", case, out, data)
    # header-only parse of the same stream
    st, hb = observe(Block.parse, io.BytesIO(data), include_transactions=False)
    if st != "ok" or hb.as_bin() != data[:80]:
        rec.violation("header.roundtrip_mismatch", case, hb if st != "ok" else hb.as_bin(), data[:80])
    # merkle / check_merkle_hash / set_txs on the parsed objects
    from pycoin.merkle import merkle
    rec.ev("merkle")
    st, r = observe(merkle, [t.hash() for t in b.txs])
    if st != "ok" or bytes(r) != header["root"]:
        rec.violation("merkle.root_mismatch", case, r, header["root"])
    rec.ev("Block.check_merkle_hash")
    st, e = observe(b.check_merkle_hash)
    if st != "ok":
        rec.violation("block.check_merkle_hash_rejects_valid", case, e, None)
    rec.ev("Block.set_txs")
    fresh = Block(header["version"], header["prev"], header["root"], header["time"], header["bits"], header["nonce"])
    st, e = observe(fresh.set_txs, list(b.txs))
    if st != "ok":
        rec.violation("block.set_txs_rejects_valid", case, e, None)
    else:
        st, out = observe(fresh.as_bin)
        if st != "ok" or out != data:
            rec.violation("block.constructed_roundtrip_mismatch", case, out, data)
    # id follows the header after set_nonce
    new_nonce = (header["nonce"] + 1) & 0xffffffff
    observe(b.id)
    rec.ev("Block.set_nonce")
    st, e = observe(b.set_nonce, new_nonce)
    want_id = RB.block_id(dict(header, nonce=new_nonce))
    st2, i = observe(b.id)
    if st != "ok" or st2 != "ok" or not _hex_is(i, want_id):
        rec.violation("block.id_stale_after_set_nonce", case, i, want_id)
    if sample:
        rec.sample({"op": "Block.from_bin/as_bin/id", "net": net, "n_txs": len(txs), "id": RB.block_id(header), "bytes": len(data)})


def judge_badroot(net, data, rec, cls="altered", pre=None):
    """Block bytes whose transactions do NOT hash to the header root: every checking entry point must raise."""
    N = _net(net)
    Block = N.block
    from pycoin.block import BadMerkleRootError
    header, txs, used = RB.parse_block(data)
    if RB.root_of(txs) == header["root"]:
        raise RuntimeError("judge_badroot called with a consistent block (generator error)")
    case = {"kind": "badroot", "net": net, "data": data, "cls": cls}
    if pre:
        case["pre"] = list(pre)
        _pre_calls([RT.txid_bytes(t) for t in txs], pre, case, rec)
    rec.case(("badroot", net, data, tuple(pre or ())))
    rec.ev("cfg:%s:badroot" % net)
    rec.ev("badroot:" + cls)
    rec.ev("BadMerkleRoot:Block.from_bin")
    st, b = observe(Block.from_bin, data)
    if st == "ok":
        rec.violation("block.accepts_bad_merkle_root.from_bin", case, "accepted", "BadMerkleRootError")
    elif isinstance(b, BadMerkleRootError):
        rec.ev("BadMerkleRootError raised")
    else:
        rec.note("mismatching block rejected with %s rather than BadMerkleRootError" % type(b).__name__)
    rec.ev("BadMerkleRoot:Block.parse")
    st, b = observe(Block.parse, io.BytesIO(data))
    if st == "ok":
        rec.violation("block.accepts_bad_merkle_root.parse", case, "accepted", "BadMerkleRootError")
    rec.ev("BadMerkleRoot:Block.parse(include_offsets)")
    st, b = observe(Block.parse, io.BytesIO(data), include_offsets=True)
    if st == "ok":
        rec.violation("block.accepts_bad_merkle_root.parse_include_offsets", case, "accepted", "BadMerkleRootError")
    # the same bytes arriving as a 'block' message
    rec.ev("BadMerkleRoot:message.parse(block)")
    st, b = bounded(N.message.parse, "block", data)
    if st == "budget":
        _no_return(rec, "block.message_parse_does_not_return", case, b, "BadMerkleRootError")
    elif st == "ok":
        rec.violation("block.accepts_bad_merkle_root.message_parse", case, "accepted", "BadMerkleRootError")
    # unchecked parse is allowed to succeed; the explicit check and set_txs must then refuse
    st, b = observe(Block.parse, io.BytesIO(data), check_merkle_hash=False)
    if st == "ok":
        rec.ev("BadMerkleRoot:Block.check_merkle_hash")
        st, e = observe(b.check_merkle_hash)
        if st == "ok":
            rec.violation("block.accepts_bad_merkle_root.check_merkle_hash", case, "no exception", "BadMerkleRootError")
        rec.ev("BadMerkleRoot:Block.set_txs")
        fresh = Block(header["version"], header["prev"], header["root"], header["time"], header["bits"], header["nonce"])
        st, e = observe(fresh.set_txs, list(b.txs))
        if st == "ok":
            rec.violation("block.accepts_bad_merkle_root.set_txs", case, "no exception", "BadMerkleRootError")


def judge_merkle(hashes, rec, fake=None):
    from pycoin.merkle import merkle
    from pycoin.encoding.hash import double_sha256
    want = RM.root(hashes)
    case = {"kind": "merkle_fake", "tag": fake, "n": len(hashes)} if fake else {"kind": "merkle", "hashes": list(hashes)}
    rec.case(("merkle", b"".join(hashes)), nontrivial=len(hashes) > 1)
    rec.ev("merkle")
    st, r = observe(merkle, list(hashes))
    if st != "ok" or bytes(r) != want:
        rec.violation("merkle.root_mismatch", case, r, want)
    st, r = observe(merkle, list(hashes), double_sha256)
    if st != "ok" or bytes(r) != want:
        rec.violation("merkle.root_mismatch", case, r, want)


# ------------------------------------------------------------------------------------------- proofs

MUST_REJECT = {"hash_bit", "hash_appended", "hash_inserted", "hash_removed", "padding_bit", "extra_flag_byte_set", "root_altered",
               "cve_duplicate"}
UNDECIDED = {"flag_flip", "total_changed", "extra_zero_flag_byte", "flags_truncated"}


def proof_msg(header, total, hashes, flag_bytes):
    return P2P.encode("merkleblock", {"header": header, "total_transactions": total, "hashes": hashes, "flags": list(flag_bytes)})


def judge_proof(net, data, cls, want, rec):
    """cls 'honest' -> must be accepted with tx_hashes == want; cls in MUST_REJECT -> must raise;
    cls in UNDECIDED -> compared with refs/pmt.extract, note only."""
    N = _net(net)
    case = {"kind": "proof", "net": net, "data": data, "cls": cls, "want": want}
    rec.case(("proof", net, data), nontrivial=(cls != "honest" or bool(want)))
    rec.ev("message.parse(merkleblock)")
    rec.ev("proof:" + cls)
    rec.ev("cfg:%s:proof_%s" % (net, "honest" if cls == "honest" else "corrupted" if cls in MUST_REJECT else "undecided"))
    st, d = bounded(N.message.parse, "merkleblock", data)
    if st == "budget":
        _no_return(rec, "pmt.parse_does_not_return", case, d, "accepted with the matched ids" if cls == "honest" else "a decision")
        return
    if cls == "honest":
        if st != "ok":
            rec.violation("pmt.rejects_honest_proof", case, d, want)
            return
        got = [bytes(h) for h in d.get("tx_hashes", ())]
        if got != list(want):
            rec.violation("pmt.wrong_matches", case, got, want)
        ref = P2P.decode("merkleblock", data)
        if _hdr_fields(d["header"]) != ref["header"] or d["total_transactions"] != ref["total_transactions"] or \
                [bytes(h) for h in d["hashes"]] != ref["hashes"] or list(d["flags"]) != ref["flags"]:
            rec.violation("pmt.parsed_fields_mismatch", case, {k: d[k] for k in ("total_transactions", "hashes", "flags")}, ref)
    elif cls in MUST_REJECT:
        if st == "ok":
            rec.violation("pmt.accepts_" + cls, case, {"tx_hashes": d.get("tx_hashes")}, "exception")
    else:
        ref = P2P.decode("merkleblock", data)
        r = RP.extract(ref["total_transactions"], ref["hashes"], bytes(ref["flags"]), strict_padding=True)
        ref_ok = r.ok and r.root == ref["header"]["root"]
        lib_ok = st == "ok"
        if ref_ok != lib_ok or (lib_ok and [bytes(h) for h in d["tx_hashes"]] != r.matches):
            rec.ev("undecided_disagreement:" + cls)
            rec.note("undecided by the statement (%s): reference %s, library %s" % (
                cls, "accepts" if ref_ok else "rejects (%s)" % (r.why or "root differs"),
                "accepts" if lib_ok else "rejects (%s)" % type(d).__name__))
        else:
            rec.ev("undecided_agreement")


def _flip(b, bit):
    x = bytearray(b)
    x[bit >> 3] ^= 1 << (bit & 7)
    return bytes(x)


def proof_suite(net, txids, matches, rng, rec, bits_per_hash=1, cap=8, sample=False):
    """honest proof + every single-position corruption of it."""
    n = len(txids)
    root = RM.root(txids)
    header = G.rand_header(rng, root=root)
    total, hashes, fb = RP.build(txids, matches)
    used = RP.bits_used_by_honest(txids, matches)
    want = [txids[i] for i in sorted(matches)]
    judge_proof(net, proof_msg(header, total, hashes, fb), "honest", want, rec)
    for shape in _tree_shape(n, matches):
        rec.ev(shape)
    if sample:
        rec.sample({"op": "merkleblock proof", "net": net, "n": n, "matches": sorted(matches), "hashes": len(hashes), "flags": fb,
                    "corruptions": "hash bits, append/insert/remove, padding bits, extra flag byte, root"})
    H = len(hashes)
    J = lambda cls, t=total, hs=hashes, f=fb, hd=header: judge_proof(net, proof_msg(hd, t, hs, f), cls, None, rec)
    # one bit of any supplied hash
    hpos = range(H) if H <= 48 else sorted(set(rng.sample(range(H), 46)) | {0, H - 1})
    for i in hpos:
        for _ in range(bits_per_hash):
            J("hash_bit", hs=hashes[:i] + [_flip(hashes[i], rng.randrange(256))] + hashes[i + 1:])
    # a hash appended / inserted / removed
    J("hash_appended", hs=hashes + [G.rbytes(rng, 32)])
    J("hash_appended", hs=hashes + [hashes[-1]])
    J("hash_appended", hs=hashes + [root])
    pos = list(range(H)) if H <= cap else sorted(rng.sample(range(H), cap - 2) + [0, H - 1])
    for k in pos:
        J("hash_inserted", hs=hashes[:k] + [G.rbytes(rng, 32)] + hashes[k:])
        J("hash_inserted", hs=hashes[:k] + [hashes[k]] + hashes[k:])
        J("hash_removed", hs=hashes[:k] + hashes[k + 1:])
    # a padding bit set in the last needed byte; a set bit in a byte after it
    for p in range(used, 8 * len(fb)):
        J("padding_bit", f=_flip(fb, p))
    J("extra_flag_byte_set", f=fb + bytes([1 << rng.randrange(8)]))
    # header root altered
    J("root_altered", hd=dict(header, root=_flip(root, rng.randrange(256))))
    J("root_altered", hd=dict(header, root=RT.dsha(root)))
    J("root_altered", hd=dict(header, root=b"\0" * 32))
    sp = sorted(SPECIAL_HASHES)[(H + total + len(want)) % len(SPECIAL_HASHES)]
    if SPECIAL_HASHES[sp] != root and sp != "zero":
        J("root_altered", hd=dict(header, root=SPECIAL_HASHES[sp]))
    # not decided by the statement: compared with the reference, noted
    flips = list(range(used)) if used <= cap else sorted(rng.sample(range(used), cap))
    for p in flips:
        J("flag_flip", f=_flip(fb, p))
    for t in {total + 1, total - 1, 2 * total, (total + 1) // 2, 0, 0xffffffff} - {total}:
        if 0 <= t <= 0xffffffff:
            J("total_changed", t=t)
    J("extra_zero_flag_byte", f=fb + b"\0")
    if len(fb) > 1:
        J("flags_truncated", f=fb[:-1])
    # the honest proof again, after its refused corruptions went through the same parser
    rec.ev("proof:honest_again")
    judge_proof(net, proof_msg(header, total, hashes, fb), "honest", want, rec)


def _tree_shape(n, matches):
    """evidence classes of one (tree, match subset): which regions of the quantifier this case lies in"""
    out = []
    odd = [h for h in range(RM.height(n)) if RM.width(n, h) % 2 == 1 and RM.width(n, h) > 1]
    if n > 1 and n & (n - 1) == 0:
        out.append("tree:power_of_two")
    if n % 2 == 1 and n > 1:
        out.append("tree:odd_leaf_count")
    if len(odd) >= 2:
        out.append("tree:two_or_more_odd_levels")
    if any(h >= 2 for h in odd):
        out.append("tree:odd_level_at_height_2_or_more")
    m = set(matches)
    out.append("subset:none" if not m else "subset:all" if len(m) == n else "subset:proper")
    if odd and (n - 1) in m:
        out.append("subset:matches_duplicated_right_edge")
    return out


def special_subsets(n, rng, count):
    """none, all, only last, only first, right-edge leaves, singles, adjacent pairs, random densities."""
    out = [(), tuple(range(n)), (n - 1,), (0,), (0, n - 1)]
    edge = set()
    h = 0
    while RM.width(n, h) > 1:
        edge.add((RM.width(n, h) - 1) << h)          # first leaf under the last node of each level
        h += 1
    out.append(tuple(sorted(edge)))
    out += [(e,) for e in sorted(edge)]
    if n > 1:
        out += [(n - 2,), (n - 2, n - 1), tuple(range(0, n, 2)), tuple(range(1, n, 2)), tuple(range(n // 2, n)), tuple(range(n // 2))]
    seen, res = set(), []
    for s in out:
        if s not in seen:
            seen.add(s)
            res.append(s)
    while len(res) < count:
        d = rng.choice([0.03, 0.1, 0.5, 0.9])
        s = tuple(i for i in range(n) if rng.random() < d)
        if n <= 20 and s in seen:
            if len(seen) >= (1 << n):
                break
            continue
        seen.add(s)
        res.append(s)
    return res[:max(count, 6)]


def run_proofs(spec, rec):
    tier = spec["tier"]
    rng = shard_rng(spec["seed"], PROPERTY, tier, _rs(spec))
    part, parts = spec["part"], spec["parts"]
    items = []
    for n in range(1, EXH_LIMIT[tier] + 1):
        chunk = 64
        for lo in range(0, 1 << n, chunk):
            items.append(("exh", n, lo, min(1 << n, lo + chunk)))
    for n in SAMPLED_SIZES[tier]:
        per = spec["sampled"] if n <= 33 else max(12, spec["sampled"] // 4) if n <= 130 else max(12, spec["sampled"] // 25)
        step = 16 if n <= 33 else 3
        for k in range(0, per, step):
            items.append(("smp", n, k, min(per, k + step)))
    mine = [it for i, it in enumerate(items) if i % parts == part]
    first = True
    for idx, (mode, n, lo, hi) in enumerate(mine):
        net = "LTC" if (idx % 4 == 3) else "BTC"
        txids = G.fake_txids("s%s" % spec["seed"], n)
        if mode == "exh":
            subsets = [tuple(i for i in range(n) if m >> i & 1) for m in range(lo, hi)]
        else:
            r2 = shard_rng(spec["seed"], PROPERTY, "subsets", n)
            subsets = special_subsets(n, r2, hi)[lo:hi]
        for s in subsets:
            proof_suite(net, txids, s, rng, rec, bits_per_hash=1 if tier == "quick" else 2,
                        cap=8 if tier == "quick" else 12, sample=first and len(s) > 0)
            first = first and not len(s) > 0


# ------------------------------------------------------------------------------------------- CVE-2012-2459

def _complete(leaves, h):
    """leaves of a (possibly incomplete) subtree of height h -> 2**h leaves with the same subtree hash"""
    if h == 0:
        return list(leaves[:1])
    half = 1 << (h - 1)
    left = _complete(leaves[:half], h - 1)
    right = _complete(leaves[half:], h - 1) if len(leaves) > half else list(left)
    return left + right


def cve_lists(txids):
    """for every level with an odd width > 1: (level, extended list with the last subtree duplicated, span of the two copies)"""
    n = len(txids)
    out = []
    h = 0
    while RM.width(n, h) > 1:
        w = RM.width(n, h)
        if w % 2 == 1:
            start = (w - 1) << h
            c = _complete(txids[start:], h)
            ext = list(txids[:start]) + c + c
            out.append((h, ext, start, w - 1))
        h += 1
    return out


def run_cve(spec, rec):
    rng = shard_rng(spec["seed"], PROPERTY, spec["tier"], _rs(spec))
    sizes = [n for n in list(range(2, spec["upto"] + 1)) + [65, 127, 129, 255, 257, 1000, 1001]]
    done = 0
    for idx, n in enumerate(sizes):
        txids = G.fake_txids("cve%s" % spec["seed"], n)
        root = RM.root(txids)
        net = "LTC" if idx % 3 == 2 else "BTC"
        for h, ext, start, pos in cve_lists(txids):
            if RM.root(ext) != root:
                raise RuntimeError("duplicated-subtree list does not keep the root (oracle construction error)")
            n2 = len(ext)
            H2 = RM.height(n2)

            def is_ancestor(hh, pp, strict):
                # does node (hh,pp) lie above the pair (h,pos),(h,pos+1)?
                if hh < h or (strict and hh == h):
                    return False
                return (pos >> (hh - h)) == pp or ((pos + 1) >> (hh - h)) == pp

            first_copy = list(range(start, start + (1 << h)))
            both = list(range(start, min(n2, start + (2 << h))))
            forged = []
            forged.append(("both_copies_matched", RP.build(ext, both)))
            forged.append(("first_copy_leaf_matched", RP.build(ext, [first_copy[0]])))
            forged.append(("second_copy_leaf_matched", RP.build(ext, [both[-1]])))
            t, hs, fb, _ = RP.build_with(ext, lambda hh, pp: is_ancestor(hh, pp, True))
            forged.append(("pair_supplied_as_hashes", (t, hs, fb)))
            header = G.rand_header(rng, root=root)
            for name, (t, hs, fb) in forged:
                r = RP.extract(t, hs, fb, strict_padding=True)
                if r.ok or r.why != "identical left and right":
                    raise RuntimeError("reference does not classify forged proof %s as a duplicate (%s)" % (name, r.why))
                rec.ev("cve:" + name)
                judge_proof(net, proof_msg(header, t, hs, fb), "cve_duplicate", None, rec)
                done += 1
            # the same extended block *is* a block with that root: honest proofs that never expose both copies are fine
            t, hs, fb = RP.build(ext, [0] if start > 0 else [])
            r = RP.extract(t, hs, fb, strict_padding=True)
            if r.ok:
                judge_proof(net, proof_msg(header, t, hs, fb), "honest", [ext[0]] if start > 0 else [], rec)
    rec.sample({"op": "CVE-2012-2459 forged proofs", "count": done, "sizes": "2..%d, 65, 127, 129, 255, 257, 1000, 1001" % spec["upto"]})


# ------------------------------------------------------------------------------------------- blocks

def _alterations(header, txs, rng):
    """yield (cls, header, txs) whose transactions do not hash to header['root'] (verified by the caller)"""
    import copy
    n = len(txs)
    k = rng.randrange(n)
    t = copy.deepcopy(txs)
    t[k]["outs"][0]["value"] ^= 1 << rng.randrange(64)
    yield "value_bit", header, t
    t = copy.deepcopy(txs)
    t[k]["lock_time"] ^= 1 << rng.randrange(32)
    yield "lock_time_bit", header, t
    t = copy.deepcopy(txs)
    i = t[k]["ins"][rng.randrange(len(t[k]["ins"]))]
    i["script"] = i["script"] + b"\x00"
    yield "script_changed", header, t
    t = copy.deepcopy(txs)
    t[k]["ins"][0]["prev"] = G.rbytes(rng, 32)
    yield "prevout_changed", header, t
    t = copy.deepcopy(txs)
    t[k]["version"] = (t[k]["version"] + 1) & 0xffffffff
    yield "version_changed", header, t
    yield "root_bit", dict(header, root=_flip(header["root"], rng.randrange(256))), txs
    yield "root_reversed", dict(header, root=header["root"][::-1]), txs
    if n >= 2:
        a, b = rng.sample(range(n), 2)
        t = list(txs)
        t[a], t[b] = t[b], t[a]
        yield "swapped", header, t
        yield "swapped_last_two", header, txs[:-2] + [txs[-1], txs[-2]]
        yield "dropped_last", header, txs[:-1]
        yield "dropped_first", header, txs[1:]
        yield "first_duplicated", header, [txs[0]] + txs
        yield "reversed", header, txs[::-1]
    yield "appended_new", header, txs + [G.rand_tx(rng, small=True)]
    if n % 2 == 0:
        yield "last_duplicated", header, txs + [txs[-1]]     # (odd n: same root by definition, not a mismatch)


def run_blocks(spec, rec):
    net = spec["net"]
    rng = shard_rng(spec["seed"], PROPERTY, spec["tier"], _rs(spec))
    sizes = BLOCK_SIZES + ([1000] if net == "BTC" or spec["tier"] == "thorough" else [])
    for rep in range(spec["reps"]):
        for n in sizes:
            if n == 1000 and rep > 0 and spec["tier"] == "quick":
                continue
            header, txs = G.rand_block(rng, n)
            data = RB.ser_block(header, txs)
            judge_block(net, data, rec, sample=(rep == 0 and n in (3, 33)))
            judge_header(net, data[:80], rec)
            # altered after the root was fixed
            alts = list(_alterations(header, txs, rng))
            if n > 40:
                alts = rng.sample(alts, 4)
            for cls, h2, t2 in alts:
                if RB.root_of(t2) == h2["root"]:
                    continue
                judge_badroot(net, RB.ser_block(h2, t2), rec, cls)
            # witness data is not committed to by the root: altering it keeps the block valid
            wi = [(a, b) for a, t in enumerate(txs) for b, i in enumerate(t["ins"]) if i["witness"]]
            if wi:
                import copy
                t2 = copy.deepcopy(txs)
                a, b = rng.choice(wi)
                t2[a]["ins"][b]["witness"] = [x + b"\x01" for x in t2[a]["ins"][b]["witness"]]
                rec.ev("witness_altered_block")
                judge_block(net, RB.ser_block(header, t2), rec)
            # odd n: the block with its last transaction repeated has the same root (documented ambiguity): round trip demanded
            if n % 2 == 1 and n > 1 and rep == 0 and n < 40:
                rec.ev("last_repeated_same_root_block")
                judge_block(net, RB.ser_block(header, txs + [txs[-1]]), rec)
    # headers: every combination of boundary values in the four integer fields, special hashes
    edges = [0, 1, 0x7fffffff, 0x80000000, 0xffffffff, 0x01020304]
    for e in edges:
        for field in ("version", "time", "bits", "nonce", "all"):
            h = G.rand_header(rng)
            if field == "all":
                h = G.rand_header(rng, edge=e)
            else:
                h[field] = e
            judge_header(net, RB.ser_header(h), rec)
    for prev in (b"\0" * 32, b"\xff" * 32, bytes(range(32))):
        for root in (b"\0" * 32, b"\xff" * 32, bytes(range(32, 64))):
            judge_header(net, RB.ser_header(dict(G.rand_header(rng), prev=prev, root=root)), rec)
    for _ in range(300 if spec["tier"] == "quick" else 20000):
        judge_header(net, RB.ser_header(G.rand_header(rng)), rec)
    genesis = {"version": 1, "prev": b"\0" * 32,
               "root": bytes.fromhex("4a5e1e4baab89f3a32518a88c31bc87f618f76673e2cc77ab2127b7afdeda33b")[::-1],
               "time": 1231006505, "bits": 0x1d00ffff, "nonce": 2083236893}
    judge_header(net, RB.ser_header(genesis), rec)
    r2 = shard_rng(spec["seed"], PROPERTY, spec["tier"], _rs(spec), "special")
    run_special(net, r2, rec)
    # transaction counts on both sides of the one-byte / three-byte compact-size boundary
    for n in spec.get("csize_counts", ()):
        header, txs = G.rand_block(r2, n, small=True)
        rec.ev("csize_boundary_tx_count:%d" % n)
        judge_block(net, RB.ser_block(header, txs), rec)
        judge_badroot(net, RB.ser_block(header, txs[:-2] + [txs[-1], txs[-2]]), rec, "swapped_last_two")
        judge_badroot(net, RB.ser_block(dict(header, root=b"\0" * 32), txs), rec, "special_root")


# special constant values of header fields (a convenience that treats "not filled in yet" / "genesis" / "unset" values of a
# header field differently must not change what a block is): every field x every special value, in honest blocks and in
# blocks whose transactions do not hash to the root
SPECIAL_HASHES = {
    "zero": b"\0" * 32, "ones": b"\xff" * 32, "first_byte_01": b"\x01" + b"\0" * 31, "last_byte_01": b"\0" * 31 + b"\x01",
    "first_byte_80": b"\x80" + b"\0" * 31, "last_byte_80": b"\0" * 31 + b"\x80", "low_half_zero": b"\0" * 16 + b"\xa5" * 16,
    "high_half_zero": b"\x5a" * 16 + b"\0" * 16,
}
SPECIAL_U32 = {"0": 0, "1": 1, "7fffffff": 0x7fffffff, "80000000": 0x80000000, "ffffffff": 0xffffffff}
INT_FIELDS = ("version", "time", "bits", "nonce")
SPECIAL_SIZES = (1, 2, 3, 5, 8)


def special_headers(header):
    """(label, header) for every single field set to every special value (root excluded), plus all of them at once"""
    for name, v in SPECIAL_HASHES.items():
        yield "prev=" + name, dict(header, prev=v)
    for f in INT_FIELDS:
        for name, v in SPECIAL_U32.items():
            yield "%s=%s" % (f, name), dict(header, **{f: v})
    yield "all_zero_but_root", dict(header, prev=b"\0" * 32, version=0, time=0, bits=0, nonce=0)
    yield "all_ones_but_root", dict(header, prev=b"\xff" * 32, version=0xffffffff, time=0xffffffff, bits=0xffffffff, nonce=0xffffffff)


def special_roots(header, txs):
    """(label, root) special constant roots and roots that are other hashes of the same block; none is the merkle root"""
    for name, v in SPECIAL_HASHES.items():
        yield name, v
    yield "prev_hash", header["prev"]
    yield "first_txid", RT.txid_bytes(txs[0]) if len(txs) > 1 else RT.dsha(RT.txid_bytes(txs[0]))
    yield "last_txid", RT.txid_bytes(txs[-1]) if len(txs) > 1 else RT.txid_bytes(txs[0])[::-1]
    yield "header_hash", RB.block_hash(header)
    yield "single_sha256_root", hashlib.sha256(header["root"]).digest()


def run_special(net, rng, rec):
    for n in SPECIAL_SIZES:
        header, txs = G.rand_block(rng, n)
        # a coinbase-shaped first transaction (null previous output) is part of the block like any other
        txs[0]["ins"] = [dict(txs[0]["ins"][0], prev=b"\0" * 32, index=0xffffffff)]
        header["root"] = RB.root_of(txs)
        t2 = [dict(t) for t in txs]
        t2[-1] = dict(t2[-1], lock_time=t2[-1]["lock_time"] ^ 1)
        for label, h in special_headers(header):
            rec.ev("special:honest:" + label)
            judge_block(net, RB.ser_block(h, txs), rec)
            # the same special header over transactions that do not hash to its root, and with one root bit flipped
            rec.ev("special:badroot:" + label)
            judge_badroot(net, RB.ser_block(h, t2), rec, "special_field")
            judge_badroot(net, RB.ser_block(dict(h, root=_flip(h["root"], (n * 37) % 256)), txs), rec, "special_field")
        for label, root in special_roots(header, txs):
            if root == header["root"]:
                continue
            rec.ev("special:root:" + label)
            judge_badroot(net, RB.ser_block(dict(header, root=root), txs), rec, "special_root")
            judge_header(net, RB.ser_header(dict(header, root=root)), rec)
            # two at once: special root in an otherwise special header
            for l2, h in (("all_zero", dict(header, prev=b"\0" * 32, version=0, time=0, bits=0, nonce=0)),
                          ("prev_same", dict(header, prev=root))):
                judge_badroot(net, RB.ser_block(dict(h, root=root), txs), rec, "special_root")
        rec.ev("special:all_zero_header")
        judge_badroot(net, RB.ser_block(dict(header, prev=b"\0" * 32, root=b"\0" * 32, version=0, time=0, bits=0, nonce=0), txs), rec,
                      "special_root")


SPECIAL_REQUIRED = (["special:honest:" + l for l, _ in special_headers({})] + ["special:badroot:" + l for l, _ in special_headers({})]
                    + ["special:root:" + l for l in list(SPECIAL_HASHES) + ["prev_hash", "first_txid", "last_txid", "header_hash",
                                                                            "single_sha256_root"]]
                    + ["special:all_zero_header", "badroot:special_root", "badroot:special_field"])


def run_special_proofs(spec, rec):
    """honest proofs whose header carries special field values / whose transaction ids are special constants, and proofs whose
    header root was replaced by a special constant"""
    rng = shard_rng(spec["seed"], PROPERTY, spec["tier"], _rs(spec), "special")
    for idx, n in enumerate((1, 2, 3, 4, 5, 6, 7, 9, 12)):
        net = "LTC" if idx % 3 == 1 else "BTC"
        txids = G.fake_txids("sp%s" % spec["seed"], n)
        variants = [("plain", txids)]
        if n > 1:
            for name in ("zero", "ones", "last_byte_01"):
                for pos in sorted({0, n - 1, n // 2}):
                    variants.append(("%s@%d" % (name, pos), txids[:pos] + [SPECIAL_HASHES[name]] + txids[pos + 1:]))
        else:
            variants += [(name, [SPECIAL_HASHES[name]]) for name in ("zero", "ones")]
        for vname, ids in variants:
            root = RM.root(ids)
            base = G.rand_header(rng, root=root)
            subsets = [tuple(range(n)), (), (n - 1,), tuple(i for i in range(n) if rng.random() < 0.5)]
            hs = list(special_headers(base)) if vname == "plain" else [("base", base)]
            for k, (label, h) in enumerate(hs):
                m = subsets[k % len(subsets)]
                total, hashes, fb = RP.build(ids, m)
                rec.ev("special:proof_honest")
                judge_proof(net, proof_msg(h, total, hashes, fb), "honest", [ids[i] for i in sorted(m)], rec)
                if vname != "plain":
                    i = rng.randrange(len(hashes))
                    judge_proof(net, proof_msg(h, total, hashes[:i] + [_flip(hashes[i], rng.randrange(256))] + hashes[i + 1:], fb),
                                "hash_bit", None, rec)
                    rec.ev("special:proof_special_txid")
            m = subsets[idx % len(subsets)]
            total, hashes, fb = RP.build(ids, m)
            for label, r2 in list(SPECIAL_HASHES.items()) + [("prev_hash", base["prev"])]:
                if r2 == root:
                    continue
                rec.ev("special:proof_root:" + label)
                judge_proof(net, proof_msg(dict(base, root=r2), total, hashes, fb), "root_altered", None, rec)
                judge_proof(net, proof_msg(dict(base, root=r2, prev=b"\0" * 32, version=0, time=0, bits=0, nonce=0), total, hashes, fb),
                            "root_altered", None, rec)


def run_merkle(spec, rec):
    rng = shard_rng(spec["seed"], PROPERTY, spec["tier"], _rs(spec))
    for n in list(range(1, spec["upto"] + 1)) + [511, 512, 513, 1000, 1023, 1024, 1025, 2047, 2048, 2049, 4097]:
        hs = G.fake_txids("m", n)
        judge_merkle(hs, rec, fake="m")
        if n <= 70:
            # repeated entries and special values
            judge_merkle([hs[0]] * n, rec)
            judge_merkle([G.rand_hash(rng) for _ in range(n)], rec)
            judge_merkle(hs[:-1] + [hs[0]], rec)
            for name in ("zero", "ones", "last_byte_01", "first_byte_80"):
                v = SPECIAL_HASHES[name]
                rec.ev("merkle:special_entries")
                judge_merkle([v] * n, rec)
                for pos in sorted({0, n // 2, n - 1}):
                    judge_merkle(hs[:pos] + [v] + hs[pos + 1:], rec)
    rec.sample({"op": "merkle(hashes)", "n": 5, "hashes": G.fake_txids("m", 5), "root": RM.root(G.fake_txids("m", 5))})


# ------------------------------------------------------------------------------------------- histories

def _sha256(b):
    return hashlib.sha256(b).digest()


def _keyed(b, key=b""):
    return hashlib.blake2b(b, digest_size=32, key=key).digest()


_TAG = hashlib.sha256(b"vmon/C14 tagged tree").digest() * 2


class _CallableHash(object):
    """a callable object that defines __eq__ and is therefore not hashable"""

    def __init__(self, tag):
        self.tag = tag

    def __call__(self, b):
        return hashlib.sha256(self.tag + b).digest()

    def __eq__(self, other):
        return isinstance(other, _CallableHash) and other.tag == self.tag

    __hash__ = None


class _Hasher(object):
    def __init__(self, salt):
        self.salt = salt

    def node(self, b):
        return hashlib.sha256(b + self.salt).digest()


# name -> combining function handed to pycoin (and used by the reference). The Bitcoin ones are resolved in _hash_f().
CUSTOM_F = {
    "sha256": _sha256,
    "lambda_sha512_32": lambda b: hashlib.sha512(b).digest()[:32],
    "lambda_sha3": lambda b: hashlib.sha3_256(b).digest(),
    "tagged": lambda b: hashlib.sha256(_TAG + b).digest(),
    "partial_k1": functools.partial(_keyed, key=b"k1"),
    "partial_k2": functools.partial(_keyed, key=b"k2"),
    "bound_a": _Hasher(b"a").node,
    "bound_b": _Hasher(b"b").node,
    "callable_obj": _CallableHash(b"obj"),
    "first32": lambda b: b[:32],
    "xor_halves": lambda b: bytes(x ^ y for x, y in zip(b[:32], b[32:])),
    "rev_dsha": lambda b: RT.dsha(b)[::-1],
}
BITCOIN_F = ("default", "pycoin_double_sha256", "own_dsha")


def _hash_f(name):
    """-> (callable to hand over or None for 'argument omitted', reference combining function)"""
    if name == "default":
        return None, RM.dsha
    if name == "pycoin_double_sha256":
        from pycoin.encoding.hash import double_sha256
        return double_sha256, RM.dsha
    if name == "own_dsha":
        return RT.dsha, RM.dsha
    return CUSTOM_F[name], CUSTOM_F[name]


def _call_merkle(hashes, name, kw, rec):
    from pycoin.merkle import merkle
    f, ref_f = _hash_f(name)
    rec.ev("merkle")
    if f is None:
        return observe(merkle, hashes), ref_f
    rec.ev("merkle(hash_f=double_sha256)" if name in BITCOIN_F else "merkle(hash_f=custom)")
    if kw:
        return observe(merkle, hashes, hash_f=f), ref_f
    return observe(merkle, hashes, f), ref_f


def _pre_calls(txids, pre, case, rec):
    """other components computing other trees over the same leaves first"""
    for name in pre:
        (st, r), ref_f = _call_merkle(list(txids), name, False, rec)
        want = RM.root_with(txids, ref_f)
        if st != "ok" or bytes(r) != want:
            rec.violation("merkle.history.bitcoin_root_mismatch" if name in BITCOIN_F else "merkle.history.custom_hash_f_root_mismatch",
                          case, r, want)


def _variant(tag, n, variant):
    base = G.fake_txids(tag, n)
    extra = G.fake_txids(tag + "+", 6)
    kind = variant[0]
    if kind == "all":
        return base
    if kind == "prefix":
        return base[:variant[1]]
    if kind == "drop_even":
        return base[2 * variant[1]:]
    if kind == "plus":
        return base + extra[:variant[1]]
    if kind == "last_replaced":
        return base[:-1] + [extra[0]]
    if kind == "rev":
        return base[::-1]
    if kind == "mid_replaced":                   # same length, same first and last entry
        k = variant[1]
        return base[:k] + [extra[1]] + base[k + 1:]
    if kind == "mid_swapped":
        k = variant[1]
        return base[:k] + [base[k + 1], base[k]] + base[k + 2:]
    raise ValueError(variant)


def gen_merkle_history(rng, n):
    """ops = [variant, function name, by keyword]; overlapping lists, both orders of custom / Bitcoin functions"""
    customs = sorted(CUSTOM_F)
    variants = [("all",)] * 4 + [("plus", rng.randrange(1, 5)), ("last_replaced",), ("rev",)]
    if n > 1:
        variants += [("prefix", rng.randrange(1, n)), ("prefix", n - 1)]
    if n > 2:
        variants += [("drop_even", rng.randrange(1, (n + 1) // 2)), ("mid_replaced", rng.randrange(1, n - 1))]
    if n > 3:
        variants += [("mid_swapped", rng.randrange(1, n - 2))]
    f1, f2 = rng.sample(customs, 2)
    head = [[("all",), f1, rng.random() < 0.3], [("all",), rng.choice(BITCOIN_F), rng.random() < 0.3]]
    if rng.random() < 0.5:
        head.reverse()
    ops = head + [[("all",), f2, rng.random() < 0.3], [("all",), f1, False]]
    for _ in range(rng.randrange(3, 9)):
        name = rng.choice(BITCOIN_F) if rng.random() < 0.45 else rng.choice([f1, f2, rng.choice(customs)])
        ops.append([rng.choice(variants), name, rng.random() < 0.3])
    ops.append([("all",), "default", False])
    return [[list(v), f, bool(k)] for v, f, k in ops]


def judge_merkle_history(tag, n, ops, rec):
    """one sequence of merkle() calls; each result is the tree root under the combining function of THAT call"""
    case = {"kind": "merkle_history", "tag": tag, "n": n, "ops": [[list(v), f, bool(k)] for v, f, k in ops]}
    rec.case(("merkle_history", tag, n, repr(case["ops"])), nontrivial=n > 1)
    lists = {}
    seen = {}                                     # variant -> classes of function already applied to it
    for step, (variant, name, kw) in enumerate(ops):
        variant = tuple(variant)
        fresh = _variant(tag, n, variant)
        if not fresh:
            continue
        mine = lists.setdefault(variant, list(fresh))           # the same list object is handed over every time
        (st, r), ref_f = _call_merkle(mine, name, kw, rec)
        want = RM.root_with(fresh, ref_f)
        bitcoin = name in BITCOIN_F
        if len(fresh) > 1:
            prev = seen.setdefault(variant, set())
            if bitcoin and "custom" in prev:
                rec.ev("history:custom_then_bitcoin")
            if not bitcoin and "bitcoin" in prev:
                rec.ev("history:bitcoin_then_custom")
            prev.add("bitcoin" if bitcoin else "custom")
        if st != "ok" or bytes(r) != want:
            rec.violation("merkle.history.bitcoin_root_mismatch" if bitcoin else "merkle.history.custom_hash_f_root_mismatch",
                          dict(case, step=step), r, want)
            return


def judge_block_object_history(net, data, bad, rec):
    """one Block object: good txs (checked) -> bad txs set unchecked -> explicit check must refuse -> checked set of the bad
    list must refuse -> the good list is accepted again and the object serialises to the honest block."""
    Block = _net(net).block
    header, txs, used = RB.parse_block(data)
    bheader, btxs, used = RB.parse_block(bad)
    if RB.root_of(txs) != header["root"] or RB.root_of(btxs) == header["root"] or bheader != header:
        raise RuntimeError("judge_block_object_history: generator error")
    case = {"kind": "block_object_history", "net": net, "data": data, "bad": bad}
    rec.case(("block_object_history", net, data, bad))
    rec.ev("Block.from_bin")
    st, b = observe(Block.from_bin, data)
    st1, g = observe(Block.from_bin, data)
    if st != "ok" or st1 != "ok":
        rec.violation("block.parse_rejects_valid", case, b if st != "ok" else g, "block")
        return
    st, x = observe(Block.parse, io.BytesIO(bad), check_merkle_hash=False)
    if st != "ok":
        return                                  # the unchecked parse is not demanded
    good_txs, bad_txs = list(g.txs), list(x.txs)
    rec.ev("Block.check_merkle_hash")
    st, e = observe(b.check_merkle_hash)
    if st != "ok":
        rec.violation("block.check_merkle_hash_rejects_valid", case, e, None)
    st, e = observe(b.set_txs, list(bad_txs), check_merkle_hash=False)
    if st != "ok":
        return
    rec.ev("BadMerkleRoot:Block.check_merkle_hash")
    st, e = observe(b.check_merkle_hash)
    if st == "ok":
        rec.violation("block.history.check_merkle_hash_stale_after_set_txs", case, "no exception", "BadMerkleRootError")
    rec.ev("BadMerkleRoot:Block.set_txs")
    st, e = observe(b.set_txs, list(bad_txs))
    if st == "ok":
        rec.violation("block.history.set_txs_accepts_bad_after_good", case, "no exception", "BadMerkleRootError")
    rec.ev("Block.set_txs")
    st, e = observe(b.set_txs, list(good_txs))
    if st != "ok":
        rec.violation("block.history.set_txs_rejects_valid_after_refusal", case, e, None)
        return
    rec.ev("Block.as_bin")
    st, out = observe(b.as_bin)
    if st != "ok" or out != data:
        rec.violation("block.history.roundtrip_mismatch", case, out, data)
    rec.ev("Block.check_merkle_hash")
    st, e = observe(b.check_merkle_hash)
    if st != "ok":
        rec.violation("block.history.check_merkle_hash_rejects_valid_after_refusal", case, e, None)
    _judge_id(b, data, case, rec)


ID_READS = ("hash", "id", "as_bin", "blockheader_id", "str")


def gen_id_history(rng, nonce0):
    """ops: ["nonce", v] / ["read", what]; reads before and after, nonce set twice in a row, set back to an earlier value"""
    ops = []
    nonces = [nonce0]
    if rng.random() < 0.7:
        ops.append(["read", rng.choice(ID_READS)])
    for _ in range(rng.randrange(2, 6)):
        r = rng.random()
        v = rng.choice(nonces) if r < 0.3 else (nonces[-1] + rng.choice([1, 0xffffffff, 1 << 31])) & 0xffffffff if r < 0.6 \
            else G.pick_u32(rng)
        nonces.append(v)
        ops.append(["nonce", v])
        if rng.random() < 0.25:
            v = G.pick_u32(rng)
            nonces.append(v)
            ops.append(["nonce", v])
        for _ in range(rng.randrange(1, 4)):
            ops.append(["read", rng.choice(ID_READS)])
    ops += [["read", "id"], ["read", "hash"], ["read", "as_bin"]]
    return ops


def judge_id_history(net, data, ops, rec):
    """header (80 bytes) or block bytes; after every set_nonce the object is the block with that nonce"""
    Block = _net(net).block
    full = len(data) > 80
    header = RB.parse_header(data[:80])
    case = {"kind": "id_history", "net": net, "data": data, "ops": [list(o) for o in ops]}
    rec.case(("id_history", net, data, repr(ops)))
    st, b = observe(Block.parse, io.BytesIO(data), include_transactions=full)
    if st != "ok":
        rec.violation("block.parse_rejects_valid" if full else "header.parse_raises", case, b, "block")
        return
    cur = dict(header)
    changed = False
    for step, (op, arg) in enumerate(ops):
        if op == "nonce":
            rec.ev("Block.set_nonce")
            st, e = observe(b.set_nonce, arg)
            if st != "ok":
                rec.violation("block.set_nonce_raises", dict(case, step=step), e, None)
                return
            cur["nonce"] = arg
            changed = True
            continue
        hdr = RB.ser_header(cur)
        want_hash = RT.dsha(hdr)
        bad = None
        if arg == "hash":
            rec.ev("Block.hash")
            st, h = observe(b.hash)
            if st != "ok" or bytes(h) != want_hash:
                bad = (h, want_hash)
        elif arg == "id":
            rec.ev("Block.id")
            st, i = observe(b.id)
            if st != "ok" or not _hex_is(i, want_hash[::-1].hex()):
                bad = (i, want_hash[::-1].hex())
        elif arg == "blockheader_id":
            st, hb = observe(b.as_blockheader)
            if st == "ok":
                rec.ev("Block.as_blockheader.id")
                st, i = observe(hb.id)
                if st != "ok" or not _hex_is(i, want_hash[::-1].hex()):
                    bad = (i, want_hash[::-1].hex())
        elif arg == "str":
            observe(str, b)                      # stimulus only (reads the id)
        elif arg == "as_bin":
            rec.ev("Block.as_bin")
            st, out = observe(b.as_bin)
            want = hdr + data[80:]
            if st != "ok" or out != want:
                rec.violation("block.history.as_bin_mismatch_after_set_nonce" if changed else "block.roundtrip_mismatch",
                              dict(case, step=step), out, want)
                return
        if bad:
            rec.violation("block.id_stale_after_set_nonce" if changed else "block.id_mismatch", dict(case, step=step), bad[0], bad[1])
            return


def run_history(spec, rec):
    net = spec["net"]
    rng = shard_rng(spec["seed"], PROPERTY, spec["tier"], _rs(spec))
    customs = sorted(CUSTOM_F)
    sizes = list(range(1, 34)) + [64, 65, 127, 129]
    for rep in range(spec["reps"]):
        # (1) merkle() call sequences over overlapping lists with varying combining functions
        for n in sizes + [rng.randrange(34, 400)]:
            tag = "h%s/%s/%d" % (spec["seed"], net, rep)
            for k in range(2 if n <= 12 else 1):
                judge_merkle_history("%s/%d" % (tag, k), n, gen_merkle_history(rng, n), rec)
        # (2) blocks parsed / checked after other trees were computed over their txids
        for n in list(range(1, 20)) + [rng.randrange(20, 34), 33, 64, 65]:
            header, txs = G.rand_block(rng, n)
            data = RB.ser_block(header, txs)
            txids = [RT.txid_bytes(t) for t in txs]
            pre = rng.sample(customs, rng.choice([1, 1, 2]))
            if rng.random() < 0.3:
                pre.insert(rng.randrange(len(pre) + 1), rng.choice(BITCOIN_F))
            judge_block(net, data, rec, pre=pre)
            if n > 1:
                # the block that carries the OTHER function's root is not a Bitcoin block
                for name in pre + [rng.choice(customs)]:
                    if name in BITCOIN_F:
                        continue
                    other = RM.root_with(txids, CUSTOM_F[name])
                    if other == header["root"]:
                        continue
                    rec.ev("BadMerkleRoot:other_hash_f_root")
                    order = [name] if rng.random() < 0.7 else [name, "default"] if rng.random() < 0.5 else ["default", name]
                    judge_badroot(net, RB.ser_block(dict(header, root=other), txs), rec, "root_of_other_hash_f", pre=order)
                judge_block(net, data, rec, pre=["default"])
            # (3) one Block object through good / bad transaction lists
            alts = [(c, t2) for c, h2, t2 in _alterations(header, txs, rng) if h2 is header and RB.root_of(t2) != header["root"]]
            for c, t2 in rng.sample(alts, min(len(alts), 2 if n <= 33 else 1)):
                judge_block_object_history(net, data, RB.ser_block(header, t2), rec)
            # (4) set_nonce / id histories on the block and on its header
            judge_id_history(net, data, gen_id_history(rng, header["nonce"]), rec)
            judge_id_history(net, data[:80], gen_id_history(rng, header["nonce"]), rec)
            # (5) an honest proof and one corrupted hash after other trees over the same leaves
            if n <= 33:
                m = [i for i in range(n) if rng.random() < 0.4]
                total, hashes, fb = RP.build(txids, m)
                _pre_calls(txids, [rng.choice(customs)], {"kind": "merkle_history", "tag": "proof-pre", "n": n, "ops": []}, rec)
                judge_proof(net, proof_msg(header, total, hashes, fb), "honest", [txids[i] for i in sorted(m)], rec)
                i = rng.randrange(len(hashes))
                judge_proof(net, proof_msg(header, total, hashes[:i] + [_flip(hashes[i], rng.randrange(256))] + hashes[i + 1:], fb),
                            "hash_bit", None, rec)
    rec.sample({"op": "merkle() history", "functions": sorted(CUSTOM_F) + list(BITCOIN_F),
                "example": gen_merkle_history(shard_rng(0, PROPERTY, "sample", 0), 5)})


# ------------------------------------------------------------------------- header-bearing object kinds x entry points

# every way the public API yields an object that carries a block header -> does the object carry transactions?
OBJECT_KINDS = {
    "parse_as_header": False,            # Block.parse_as_header(80 bytes)
    "constructed": False,                # Block(version, prev, root, time, bits, nonce)
    "parsed_no_txs": False,              # Block.parse(block stream, include_transactions=False)
    "as_blockheader_of_full": False,     # full.as_blockheader()
    "as_blockheader_of_header": False,   # header.as_blockheader()
    "txs_emptied": False,                # full block, then set_txs([])
    "msg_headers_entry": False,          # message.parse("headers", ...)["headers"][0][0]
    "msg_merkleblock_header": False,     # message.parse("merkleblock", ...)["header"]
    "from_bin_full": True,               # Block.from_bin(block bytes)
    "parsed_full": True,                 # Block.parse(stream)
    "parsed_offsets": True,              # Block.parse(stream, include_offsets=True)
    "set_txs_full": True,                # constructed header + set_txs(parsed transactions)
    "msg_block": True,                   # message.parse("block", ...)["block"]
}
AS_BLOCKHEADER_KINDS = ("as_blockheader_of_full", "as_blockheader_of_header")
OBJECT_OPS = ("stream_header", "stream", "as_bin", "as_hex", "hash", "id", "previous_block_id", "as_blockheader", "str",
              "check_merkle_hash", "pack_merkleblock", "pack_headers", "pack_block", "alias_blockheader", "set_nonce")


def _make_object(N, kind, data, header, proof):
    """-> observe() result of building the object of that kind for the block `data` through the real library"""
    Block = N.block
    six = (header["version"], header["prev"], header["root"], header["time"], header["bits"], header["nonce"])

    def build():
        if kind == "parse_as_header":
            return Block.parse_as_header(io.BytesIO(data[:80]))
        if kind == "constructed":
            return Block(*six)
        if kind == "parsed_no_txs":
            f = io.BytesIO(data)
            b = Block.parse(f, include_transactions=False)
            if f.tell() != 80:
                raise _Consumed(f.tell())
            return b
        if kind == "as_blockheader_of_full":
            return Block.from_bin(data).as_blockheader()
        if kind == "as_blockheader_of_header":
            return Block.parse_as_header(io.BytesIO(data[:80])).as_blockheader()
        if kind == "txs_emptied":
            b = Block.from_bin(data)
            b.set_txs([])
            return b
        if kind == "msg_headers_entry":
            return N.message.parse("headers", P2P.encode("headers", {"headers": [{"header": header, "txn_count": 0}]}))["headers"][0][0]
        if kind == "msg_merkleblock_header":
            return N.message.parse("merkleblock", proof)["header"]
        if kind == "from_bin_full":
            return Block.from_bin(data)
        if kind == "parsed_full":
            return Block.parse(io.BytesIO(data))
        if kind == "parsed_offsets":
            return Block.parse(io.BytesIO(data), include_offsets=True)
        if kind == "set_txs_full":
            b = Block(*six)
            b.set_txs(list(Block.from_bin(data).txs))
            return b
        if kind == "msg_block":
            return N.message.parse("block", data)["block"]
        raise ValueError(kind)
    return bounded(build)


class _Consumed(Exception):
    pass


def gen_kinds_plan(rng, n_blocks, quick=True):
    """plan = {"objects": [[block index, kind, [ops...]], ...], "headers_order": [...], "counts": [...]}.
    Every kind on every block; each object gets every entry point once in a shuffled order with set_nonce somewhere
    (so that later entry points see a header that was edited through the public method) and some entry points repeated."""
    objects = []
    for bi in range(n_blocks):
        kinds = sorted(OBJECT_KINDS)
        rng.shuffle(kinds)
        for kind in kinds:
            ops = [o for o in OBJECT_OPS if o != "set_nonce"]
            rng.shuffle(ops)
            if rng.random() < 0.6:
                ops.insert(rng.randrange(len(ops) + 1), "set_nonce")
            ops += rng.sample(OBJECT_OPS[:-1], 3)
            # the message packers before anything else was called on the object, for some
            if rng.random() < 0.3:
                first = rng.choice(["pack_merkleblock", "pack_headers", "pack_block"])
                ops.remove(first)
                ops.insert(0, first)
            objects.append([bi, kind, ops])
    order = list(range(len(objects)))
    rng.shuffle(order)
    counts = [0 if rng.random() < 0.7 else rng.choice([1, 252, 253, 65536]) for _ in order]
    return {"objects": objects, "headers_order": order, "counts": counts, "nonce_salt": rng.getrandbits(32)}


def judge_kinds(net, blocks, matches, plan, rec):
    """blocks: list of honest block bytes; matches: per block the matched transaction indices of the proof.
    For every (block, kind): build the object, run the entry points in the planned order; each must behave as the header /
    block it currently carries. Then one 'headers' message over all objects in the planned order."""
    N = _net(net)
    case = {"kind": "kinds", "net": net, "blocks": list(blocks), "matches": [list(m) for m in matches], "plan": plan}
    rec.case(("kinds", net, tuple(blocks), repr(matches), repr(plan)))
    rec.ev("cfg:%s:kinds" % net)
    info = []
    for data, m in zip(blocks, matches):
        header, txs, used = RB.parse_block(data)
        if RB.root_of(txs) != header["root"]:
            raise RuntimeError("judge_kinds: generator error")
        txids = [RT.txid_bytes(t) for t in txs]
        total, hashes, fb = RP.build(txids, m)
        info.append({"data": data, "header": header, "txids": txids, "proof": (total, hashes, fb),
                     "want": [txids[i] for i in sorted(m)], "proof_msg": proof_msg(header, total, hashes, fb)})
    live = []                                        # (object, current header dict, has_txs, kind, block info) for the final message
    for oi, (bi, kind, ops) in enumerate(plan["objects"]):
        I = info[bi]
        has_txs = OBJECT_KINDS[kind]
        rec.ev("kind:" + kind)
        st, obj = _make_object(N, kind, I["data"], I["header"], I["proof_msg"])
        c = dict(case, object=oi)
        if st == "budget":
            _no_return(rec, "kinds.object_not_obtained.does_not_return", c, obj, kind)
            live.append(None)
            continue
        if st != "ok":
            if isinstance(obj, _Consumed):
                rec.violation("header.parse_consumed_wrong_length", c, obj.args[0], 80)
            else:
                rec.violation("kinds.object_not_obtained." + ("full" if has_txs else "header_only"), c, obj, kind)
            live.append(None)
            continue
        cur = dict(I["header"])
        live.append([obj, cur, has_txs, kind, I])
        ok = True
        for step, op in enumerate(ops):
            ok = _object_op(N, obj, cur, has_txs, kind, I, op, dict(c, step=step, op=op), plan["nonce_salt"] + 31 * oi + step, rec)
            if not ok:
                break
    # one 'headers' message built from objects of every kind
    entries, want = [], []
    for idx, cnt in zip(plan["headers_order"], plan["counts"]):
        if live[idx] is None:
            continue
        obj, cur, has_txs, kind, I = live[idx]
        if kind in AS_BLOCKHEADER_KINDS and not isinstance(obj, N.block):
            continue                                 # judged per object (pack_headers)
        entries.append((obj, cnt))
        want.append({"header": dict(cur), "txn_count": cnt})
    if entries:
        rec.ev("message.pack(headers)")
        ref = P2P.encode("headers", {"headers": want})
        st, out = observe(N.message.pack, "headers", headers=entries)
        c = dict(case, op="headers_of_all_kinds")
        if st != "ok":
            rec.violation("pack.headers_raises", c, out, "packed message")
        elif out != ref:
            rec.violation("pack.headers_not_wire_format", c, out, ref)
        else:
            rec.ev("message.parse(headers)")
            st, d = bounded(N.message.parse, "headers", out)
            if st == "budget":
                _no_return(rec, "headers.parse_does_not_return", c, d, "headers")
            elif st != "ok":
                rec.violation("headers.parse_raises", c, d, "headers")
            else:
                got = [(_hdr_fields(h), k) for h, k in d["headers"]]
                if got != [(w["header"], w["txn_count"]) for w in want]:
                    rec.violation("headers.roundtrip_mismatch", c, got, want)
                elif any(bytes(h.hash()) != RB.block_hash(w["header"]) for (h, k), w in zip(d["headers"], want)):
                    rec.violation("block.hash_mismatch", c, "ids of parsed headers", "dsha(header)")
        # the objects are what they were: handing them to the packer must not have changed them
        for item in live:
            if item is None:
                continue
            obj, cur, has_txs, kind, I = item
            wantb = RB.ser_header(cur) + (I["data"][80:] if has_txs else b"")
            st, out = observe(obj.as_bin)
            if st != "ok" or out != wantb:
                rec.violation("kinds.object_changed_by_packing", dict(case, kind_of_object=kind), out, wantb)
                break


def _object_op(N, obj, cur, has_txs, kind, I, op, c, salt, rec):
    """one entry point on one object; cur = the header the object carries now. -> False to stop this object's sequence"""
    hdr = RB.ser_header(cur)
    body = I["data"][80:] if has_txs else b""
    cls = "full" if has_txs else "header_only"
    want_hash = RT.dsha(hdr)
    if op == "stream_header":
        rec.ev("Block.stream_header")
        f = io.BytesIO()
        st, e = observe(obj.stream_header, f)
        if st != "ok" or f.getvalue() != hdr:
            rec.violation("kinds.stream_header_mismatch." + cls, c, e if st != "ok" else f.getvalue(), hdr)
            return False
    elif op == "stream":
        rec.ev("Block.stream")
        f = io.BytesIO()
        st, e = observe(obj.stream, f)
        if st != "ok" or f.getvalue() != hdr + body:
            rec.violation("kinds.stream_mismatch." + cls, c, e if st != "ok" else f.getvalue(), hdr + body)
            return False
    elif op == "as_bin":
        rec.ev("Block.as_bin")
        st, out = observe(obj.as_bin)
        if st != "ok" or out != hdr + body:
            rec.violation("kinds.as_bin_mismatch." + cls, c, out, hdr + body)
            return False
    elif op == "as_hex":
        rec.ev("Block.as_hex")
        st, out = observe(obj.as_hex)
        if st != "ok" or not _hex_is(out, (hdr + body).hex()):
            rec.violation("kinds.as_hex_mismatch." + cls, c, out, (hdr + body).hex())
            return False
    elif op == "hash":
        rec.ev("Block.hash")
        st, h = observe(obj.hash)
        if st != "ok" or bytes(h) != want_hash:
            rec.violation("kinds.hash_mismatch." + cls, c, h, want_hash)
            return False
    elif op == "id":
        rec.ev("Block.id")
        st, i = observe(obj.id)
        if st != "ok" or not _hex_is(i, want_hash[::-1].hex()):
            rec.violation("kinds.id_mismatch." + cls, c, i, want_hash[::-1].hex())
            return False
    elif op == "previous_block_id":
        observe(obj.previous_block_id)               # stimulus only (the statement does not speak about it)
    elif op == "str":
        observe(str, obj)                            # stimulus only
        observe(repr, obj)
    elif op == "check_merkle_hash":
        if has_txs:
            rec.ev("Block.check_merkle_hash")
            st, e = observe(obj.check_merkle_hash)
            if st != "ok":
                rec.violation("block.check_merkle_hash_rejects_valid", c, e, None)
                return False
    elif op == "as_blockheader":
        rec.ev("Block.as_blockheader")
        st, hb = observe(obj.as_blockheader)
        if st != "ok":
            rec.violation("kinds.as_blockheader_raises", c, hb, "header object")
            return False
        st, out = observe(hb.as_bin)
        if st != "ok" or out != hdr:
            rec.violation("kinds.as_blockheader_not_the_header." + cls, c, out, hdr)
            return False
        f = io.BytesIO()
        st, e = observe(hb.stream, f)
        if st != "ok" or f.getvalue() != hdr:
            rec.violation("kinds.as_blockheader_not_the_header." + cls, c, e if st != "ok" else f.getvalue(), hdr)
            return False
        st, h = observe(hb.hash)
        if st != "ok" or bytes(h) != want_hash:
            rec.violation("kinds.as_blockheader_hash_mismatch", c, h, want_hash)
            return False
    elif op == "alias_blockheader":
        # the header object handed out is a separate object: editing it does not edit the block, and the reverse
        rec.ev("Block.as_blockheader")
        st, hb = observe(obj.as_blockheader)
        if st != "ok":
            rec.violation("kinds.as_blockheader_raises", c, hb, "header object")
            return False
        observe(obj.hash)
        observe(hb.hash)
        other = (cur["nonce"] ^ (1 + (salt & 0xffff))) & 0xffffffff
        st, e = observe(hb.set_nonce, other)
        if st != "ok":
            rec.violation("block.set_nonce_raises", c, e, None)
            return False
        st, out = observe(obj.as_bin)
        st2, h = observe(obj.hash)
        if st != "ok" or st2 != "ok" or out != hdr + body or bytes(h) != want_hash:
            rec.violation("kinds.as_blockheader_aliases_block", c, {"as_bin": out, "hash": h}, {"as_bin": hdr + body, "hash": want_hash})
            return False
        hdr2 = RB.ser_header(dict(cur, nonce=other))
        st, out = observe(hb.as_bin)
        st2, h = observe(hb.hash)
        if st != "ok" or st2 != "ok" or out != hdr2 or bytes(h) != RT.dsha(hdr2):
            rec.violation("block.id_stale_after_set_nonce", c, {"as_bin": out, "hash": h}, {"as_bin": hdr2, "hash": RT.dsha(hdr2)})
            return False
    elif op == "set_nonce":
        rec.ev("Block.set_nonce")
        new = (cur["nonce"] + 1 + (salt % 7)) & 0xffffffff if salt & 1 else (salt * 2654435761) & 0xffffffff
        st, e = observe(obj.set_nonce, new)
        if st != "ok":
            rec.violation("block.set_nonce_raises", c, e, None)
            return False
        cur["nonce"] = new
    elif op in ("pack_merkleblock", "pack_headers", "pack_block"):
        return _pack_op(N, obj, cur, has_txs, kind, I, op, c, rec)
    else:
        raise ValueError(op)
    return True


def _pack_op(N, obj, cur, has_txs, kind, I, op, c, rec):
    """the object handed to the library's message packer as the header / block field; the packed bytes are the reference
    wire encoding of the header (block) the object carries, and the library's parser reads them back."""
    cls = "full" if has_txs else "header_only"
    hdr = RB.ser_header(cur)
    total, hashes, fb = I["proof"]
    if op == "pack_merkleblock":
        rec.ev("message.pack(merkleblock)")
        ref = proof_msg(cur, total, hashes, fb)
        # the containers in any of their usual spellings
        spell = (c["step"] + len(hashes)) % 3
        hs, fl = (list(hashes), list(fb)) if spell == 0 else (tuple(hashes), bytes(fb)) if spell == 1 else (list(hashes), tuple(fb))
        st, out = observe(N.message.pack, "merkleblock", header=obj, total_transactions=total, hashes=hs, flags=fl)
    elif op == "pack_headers":
        rec.ev("message.pack(headers)")
        ref = P2P.encode("headers", {"headers": [{"header": cur, "txn_count": 0}]})
        st, out = observe(N.message.pack, "headers", headers=[(obj, 0)])
    else:
        if not has_txs:
            return True                              # a header-only object is not a block message
        rec.ev("message.pack(block)")
        ref = hdr + I["data"][80:]
        st, out = observe(N.message.pack, "block", block=obj)
    rec.ev("pack:" + cls)
    if st != "ok":
        if kind in AS_BLOCKHEADER_KINDS and not isinstance(obj, N.block):
            rec.ev("pack:as_blockheader_result_refused")
            rec.violation("pack.refuses_as_blockheader_result", c, out, "packed message")
            return True
        rec.violation("pack.%s_raises.%s" % (op[5:], cls), c, out, "packed message")
        return False
    if out != ref:
        rec.violation("pack.%s_not_wire_format.%s" % (op[5:], cls), c, out, ref)
        return False                                 # (bytes that are not the wire format are not fed to the parser: undefined cost)
    name = op[5:]
    rec.ev("message.parse(%s)" % name)
    st, d = bounded(N.message.parse, name, out)
    if st == "budget":
        _no_return(rec, "pack.%s_parse_does_not_return" % name, c, d, "parsed message")
        return False
    if name == "merkleblock":
        rec.ev("proof:honest")
        if st != "ok":
            rec.violation("pmt.rejects_honest_proof_packed_by_library", c, d, I["want"])
            return False
        if [bytes(h) for h in d.get("tx_hashes", ())] != I["want"]:
            rec.violation("pmt.wrong_matches", c, d.get("tx_hashes"), I["want"])
            return False
        got = d["header"]
    elif name == "headers":
        if st != "ok" or len(d["headers"]) != 1 or d["headers"][0][1] != 0:
            rec.violation("headers.parse_raises" if st != "ok" else "headers.roundtrip_mismatch", c, d, "one header, count 0")
            return False
        got = d["headers"][0][0]
    else:
        if st != "ok":
            rec.violation("block.parse_rejects_valid", c, d, "block")
            return False
        got = d["block"]
        st, ab = observe(got.as_bin)
        if st != "ok" or ab != ref:
            rec.violation("block.roundtrip_mismatch", c, ab, ref)
            return False
    if _hdr_fields(got) != cur:
        rec.violation("pack.%s_header_roundtrip_mismatch" % name, c, _hdr_fields(got), cur)
        return False
    st, h = observe(got.hash)
    if st != "ok" or bytes(h) != RT.dsha(hdr):
        rec.violation("block.hash_mismatch", c, h, RT.dsha(hdr))
        return False
    return True


def run_kinds(spec, rec):
    net = spec["net"]
    rng = shard_rng(spec["seed"], PROPERTY, spec["tier"], _rs(spec))
    sizes = list(range(1, 18)) + [32, 33]
    for rep in range(spec["reps"]):
        todo = list(sizes) + [rng.randrange(18, 32), rng.choice([64, 65])]
        rng.shuffle(todo)
        while todo:
            group = [todo.pop() for _ in range(min(len(todo), rng.choice([1, 2, 3])))]
            blocks, matches = [], []
            for n in group:
                header, txs = G.rand_block(rng, n)
                blocks.append(RB.ser_block(header, txs))
                r = rng.random()
                matches.append(list(range(n)) if r < 0.15 else [] if r < 0.25 else [n - 1] if r < 0.4 else
                               [i for i in range(n) if rng.random() < rng.choice([0.1, 0.5])])
            judge_kinds(net, blocks, matches, gen_kinds_plan(rng, len(blocks)), rec)
    rec.sample({"op": "object kinds x entry points", "kinds": sorted(OBJECT_KINDS), "entry_points": list(OBJECT_OPS)})


# ------------------------------------------------------------------------- refused calls between judged calls (error-path state)

class _FailingStream(object):
    """a caller's stream that takes `room` bytes and then refuses"""

    def __init__(self, room):
        self.room = room
        self.got = 0

    def write(self, b):
        if self.got + len(b) > self.room:
            take = self.room - self.got
            self.got = self.room
            raise IOError("stream refuses after %d bytes (%d of this write taken)" % (self.room, take))
        self.got += len(b)
        return len(b)


class _PrefixRec(object):
    """violations reported through this recorder get their mechanism key prefixed (same judgement, other circumstances)"""

    def __init__(self, rec, prefix):
        self._rec = rec
        self._prefix = prefix
        self.count = 0

    def violation(self, mech, case, observed=None, expected=None, detail=None):
        self.count += 1
        self._rec.violation(self._prefix + mech, case, observed, expected, detail)

    def __getattr__(self, name):
        return getattr(self._rec, name)


class _Ctx(object):
    pass


def _raising_f(after):
    state = {"n": 0}

    def f(b):
        state["n"] += 1
        if state["n"] > after:
            raise ValueError("combining function gives up")
        return RT.dsha(b)
    return f


def _version_fields(addr, **kw):
    d = dict(version=70015, services=1, timestamp=1500000000, remote_address=addr, local_address=addr, nonce=7,
             subversion=b"/vmon/", last_block_index=0, relay=True)
    d.update(kw)
    return d


# name -> (uses a network's packer/parser (may be run on the other network), function(X) -> list of thunks, each expected to raise).
# X.P: the network whose packer / parser / block class is used; X.full, X.hdr: a full block object and a header object of that
# network (the judged ones when the refusal runs on the judged network); X.foreign: a header object of the other network;
# X.I: block info; X.addr / X.inv: a PeerAddress / InvItem.  Everything goes through public entry points.
def _mk_refusals():
    R = {}

    def pk(X, name, **kw):
        return lambda: X.P.message.pack(name, **kw)

    def ps(X, name, data):
        return lambda: X.P.message.parse(name, data)

    h1 = b"\x11" * 32
    R["pack_version_without_relay"] = (True, lambda X: [pk(X, "version", **{k: v for k, v in _version_fields(X.addr).items()
                                                                            if k != "relay"})])
    R["pack_version_services_2_64"] = (True, lambda X: [pk(X, "version", **_version_fields(X.addr, services=1 << 64))])
    R["pack_version_subversion_none"] = (True, lambda X: [pk(X, "version", **_version_fields(X.addr, subversion=None))])
    R["pack_version_subversion_str"] = (True, lambda X: [pk(X, "version", **_version_fields(X.addr, subversion="/vmon/"))])
    R["pack_version_last_block_2_32"] = (True, lambda X: [pk(X, "version", **_version_fields(X.addr, last_block_index=1 << 32))])
    R["pack_reject_code_256"] = (True, lambda X: [pk(X, "reject", message=b"tx", code=256, reason=b"x", data=h1)])
    R["pack_merkleblock_flag_256"] = (True, lambda X: [pk(X, "merkleblock", header=X.hdr, total_transactions=X.I["proof"][0],
                                                          hashes=list(X.I["proof"][1]), flags=list(X.I["proof"][2]) + [256])])
    R["pack_merkleblock_total_2_32"] = (True, lambda X: [pk(X, "merkleblock", header=X.full, total_transactions=1 << 32,
                                                            hashes=list(X.I["proof"][1]), flags=list(X.I["proof"][2]))])
    R["pack_merkleblock_total_float"] = (True, lambda X: [pk(X, "merkleblock", header=X.hdr, total_transactions=1.5,
                                                             hashes=list(X.I["proof"][1]), flags=list(X.I["proof"][2]))])
    R["pack_merkleblock_hash_str"] = (True, lambda X: [pk(X, "merkleblock", header=X.hdr, total_transactions=X.I["proof"][0],
                                                          hashes=list(X.I["proof"][1]) + ["ab" * 16], flags=list(X.I["proof"][2]))])
    R["pack_merkleblock_hash_none"] = (True, lambda X: [pk(X, "merkleblock", header=X.hdr, total_transactions=X.I["proof"][0],
                                                           hashes=list(X.I["proof"][1]) + [None], flags=list(X.I["proof"][2]))])
    R["pack_merkleblock_without_flags"] = (True, lambda X: [pk(X, "merkleblock", header=X.full, total_transactions=X.I["proof"][0],
                                                               hashes=list(X.I["proof"][1]))])
    R["pack_merkleblock_flags_none"] = (True, lambda X: [pk(X, "merkleblock", header=X.hdr, total_transactions=X.I["proof"][0],
                                                            hashes=list(X.I["proof"][1]), flags=None)])
    R["pack_merkleblock_header_none"] = (True, lambda X: [pk(X, "merkleblock", header=None, total_transactions=1, hashes=[h1], flags=[1])])
    R["pack_merkleblock_header_foreign"] = (True, lambda X: [pk(X, "merkleblock", header=X.foreign, total_transactions=1, hashes=[h1],
                                                                flags=[1])])
    R["pack_headers_count_2_64"] = (True, lambda X: [pk(X, "headers", headers=[(X.hdr, 0), (X.full, 1 << 64)])])
    R["pack_headers_count_str"] = (True, lambda X: [pk(X, "headers", headers=[(X.hdr, 0), (X.hdr, "1")])])
    R["pack_headers_count_negative"] = (True, lambda X: [pk(X, "headers", headers=[(X.full, 0), (X.hdr, -1)])])
    R["pack_headers_foreign_entry"] = (True, lambda X: [pk(X, "headers", headers=[(X.hdr, 0), (X.foreign, 0)])])
    R["pack_headers_bytes_entry"] = (True, lambda X: [pk(X, "headers", headers=[(X.full, 0), (X.I["data"][:80], 0)])])
    R["pack_block_bytes"] = (True, lambda X: [pk(X, "block", block=X.I["data"])])
    R["pack_block_foreign"] = (True, lambda X: [pk(X, "block", block=X.foreign)])
    R["pack_block_nonce_2_32"] = (True, lambda X: [pk(X, "block", block=X.bad_nonce)])
    R["pack_block_root_none"] = (True, lambda X: [pk(X, "block", block=X.bad_root), pk(X, "headers", headers=[(X.bad_root, 0)])])
    R["pack_block_tx_amount_2_64"] = (True, lambda X: [pk(X, "block", block=X.bad_amount)])
    R["pack_block_tx_lock_time_2_32"] = (True, lambda X: [pk(X, "block", block=X.bad_lock_time)])
    R["pack_getheaders_hash_none"] = (True, lambda X: [pk(X, "getheaders", version=1, hashes=[h1, None], hash_stop=h1)])
    R["pack_getblocks_without_stop"] = (True, lambda X: [pk(X, "getblocks", version=1, hashes=[h1])])
    R["pack_ping_2_64"] = (True, lambda X: [pk(X, "ping", nonce=1 << 64)])
    R["pack_ping_none"] = (True, lambda X: [pk(X, "ping", nonce=None), pk(X, "pong", nonce="7"), pk(X, "ping", nonce=1.5)])
    R["pack_sendcmpct_version_2_64"] = (True, lambda X: [pk(X, "sendcmpct", enabled=True, version=1 << 64)])
    R["pack_inv_foreign_item"] = (True, lambda X: [pk(X, "inv", items=[X.inv, object()])])
    R["pack_tx_none"] = (True, lambda X: [pk(X, "tx", tx=None)])
    R["pack_blocktxn_tx_none"] = (True, lambda X: [pk(X, "blocktxn", header_hash=h1, txs=[X.full.txs[0], None])])
    R["pack_unknown_message"] = (True, lambda X: [pk(X, "nosuchmessage", block=X.full)])
    R["pack_filterload_byte_300"] = (True, lambda X: [pk(X, "filterload", filter=[1, 2, 300], hash_function_count=1, tweak=0, flags=True)])
    R["pack_addr_time_2_32"] = (True, lambda X: [pk(X, "addr", date_address_tuples=[(1, X.addr), (1 << 32, X.addr)])])
    # the parser
    R["parse_block_truncated"] = (True, lambda X: [ps(X, "block", X.I["data"][:-1]), ps(X, "block", X.I["data"][:83])])
    R["parse_block_bad_root"] = (True, lambda X: [ps(X, "block", X.I["bad"])])
    R["parse_block_none"] = (True, lambda X: [ps(X, "block", None), ps(X, "block", X.I["data"].hex())])
    R["parse_merkleblock_truncated"] = (True, lambda X: [ps(X, "merkleblock", X.I["proof_msg"][:-1]), ps(X, "merkleblock", X.I["proof_msg"][:90])])
    R["parse_headers_truncated"] = (True, lambda X: [ps(X, "headers", b"\x02" + X.I["data"][:80] + b"\0" + X.I["data"][:40])])
    R["parse_unknown_message"] = (True, lambda X: [ps(X, "nosuchmessage", X.I["data"])])
    R["from_bin_truncated"] = (True, lambda X: [lambda: X.P.block.from_bin(X.I["data"][:-3]),
                                                lambda: X.P.block.parse(io.BytesIO(X.I["data"][:81])),
                                                lambda: X.P.block.parse_as_header(io.BytesIO(X.I["data"][:79]))])
    R["from_bin_str"] = (True, lambda X: [lambda: X.P.block.from_bin(X.I["data"].hex()), lambda: X.P.block.from_bin(None)])
    R["from_bin_bad_root"] = (True, lambda X: [lambda: X.P.block.from_bin(X.I["bad"])])
    # the caller's stream refuses part-way through (the objects are the judged ones on the judged network)
    R["stream_to_refusing_stream"] = (True, lambda X: [lambda: X.full.stream(_FailingStream(len(X.I["data"]) - 2)),
                                                       lambda: X.full.stream(_FailingStream(81)),
                                                       lambda: X.hdr.stream(_FailingStream(40))])
    R["stream_header_to_refusing_stream"] = (True, lambda X: [lambda: X.hdr.stream_header(_FailingStream(70)),
                                                              lambda: X.full.stream_header(_FailingStream(3)),
                                                              lambda: X.hdr.stream_header(None)])
    R["ids_of_unstreamable_header"] = (True, lambda X: [X.bad_nonce.hash, X.bad_nonce.id, X.bad_nonce.as_bin, X.bad_nonce.as_hex,
                                                        X.bad_root.hash, X.bad_root.as_bin,
                                                        lambda: X.bad_nonce.stream_header(io.BytesIO())])
    R["check_merkle_hash_of_header"] = (True, lambda X: [X.aux_hdr.check_merkle_hash])
    R["set_txs_bad_list_on_other_object"] = (True, lambda X: [lambda: X.aux_full.set_txs(list(X.aux_bad_txs)),
                                                              lambda: X.aux_full.set_txs([None]),
                                                              lambda: X.aux_full.set_txs([X.I["data"]])])
    # merkle()
    R["merkle_refused_lists"] = (False, lambda X: [lambda: X.merkle([]), lambda: X.merkle(X.I["txids"] + [None] * (1 + len(X.I["txids"]) % 2)),
                                                   lambda: X.merkle(X.I["txids"] + ["00" * 32] * (1 + len(X.I["txids"]) % 2)),
                                                   lambda: X.merkle(None), lambda: X.merkle([7, 8])])
    R["merkle_combining_function_raises"] = (False, lambda X: [lambda: X.merkle(X.I["txids"] + [h1], _raising_f(len(X.I["txids"]) // 2)),
                                                               lambda: X.merkle(X.I["txids"] + [h1], _raising_f(0)),
                                                               lambda: X.merkle(X.I["txids"] + [h1], None)])
    return R


REFUSALS = _mk_refusals()
# refusals carried out on the judged objects themselves; each is undone through the public method before the next judged call
OBJECT_REFUSALS = ("set_nonce_2_32", "set_nonce_none", "set_txs_none_item", "set_txs_bad_list")
ERR_JUDGED = OBJECT_OPS + ("parse_proof", "parse_corrupt_proof", "from_bin", "badroot", "merkle", "new_header")
ERR_PACK_OPS = ("pack_merkleblock", "pack_headers", "pack_block")


def gen_errpath_plan(rng):
    """steps: ["refuse", name, "same"|"other"] / ["object_refuse", name, "full"|"hdr"] / ["judge", op, "full"|"hdr"]. Every kind of
    refusal once per plan in a shuffled order, sometimes two in a row, each followed by 1-3 judged calls (the first one mostly
    a message packed by the library)."""
    names = sorted(REFUSALS) + list(OBJECT_REFUSALS)
    rng.shuffle(names)
    steps = []
    for name in names:
        if name in OBJECT_REFUSALS:
            steps.append(["object_refuse", name, "full" if name.startswith("set_txs") or rng.random() < 0.5 else "hdr"])
        else:
            steps.append(["refuse", name, "other" if REFUSALS[name][0] and rng.random() < 0.25 else "same"])
            if rng.random() < 0.15:
                steps.append(["refuse", rng.choice(sorted(REFUSALS)), "same"])
        first = rng.choice(ERR_PACK_OPS) if rng.random() < 0.6 else rng.choice(ERR_JUDGED)
        which = "full" if first == "pack_block" or rng.random() < 0.5 else "hdr"
        steps.append(["judge", first, which])
        for _ in range(rng.choice([0, 0, 1, 2])):
            steps.append(["judge", rng.choice(ERR_JUDGED), rng.choice(["full", "hdr"])])
    return {"steps": steps, "nonce_salt": rng.getrandbits(32)}


def _errpath_ctx(net, other, I, objs, where, rec):
    """the things a refusal is built from, on the judged network (`same`: the judged objects) or on the other one"""
    from pycoin.message.PeerAddress import PeerAddress
    from pycoin.message.InvItem import InvItem
    from pycoin.merkle import merkle
    X = _Ctx()
    X.I = I
    X.merkle = merkle
    X.addr = PeerAddress(1, bytes([127, 0, 0, 1]), 8333)
    X.inv = InvItem(2, I["txids"][0])
    P = _net(net if where == "same" else other)
    F = _net(other if where == "same" else net)
    X.P = P
    data = I["data"]
    H = I["header"]
    if where == "same":
        X.full, X.hdr = objs["full"][0], objs["hdr"][0]
    else:
        X.full, X.hdr = P.block.from_bin(data), P.block.parse_as_header(io.BytesIO(data[:80]))
    X.foreign = F.block.from_bin(data)
    X.aux_full = P.block.from_bin(data)
    X.aux_hdr = P.block.parse_as_header(io.BytesIO(data[:80]))
    X.aux_bad_txs = list(P.block.parse(io.BytesIO(I["bad"]), check_merkle_hash=False).txs)
    X.bad_nonce = P.block(H["version"], H["prev"], H["root"], H["time"], H["bits"], 1 << 32)
    X.bad_root = P.block(H["version"], H["prev"], None, H["time"], H["bits"], H["nonce"])
    Tx = P.tx
    good = X.aux_full.txs[0]
    for name, tx in (("bad_amount", Tx(1, [Tx.TxIn(b"\x22" * 32, 0, b"\x51")], [Tx.TxOut(1 << 64, b"\x51")])),
                     ("bad_lock_time", Tx(1, [Tx.TxIn(b"\x22" * 32, 0, b"\x51")], [Tx.TxOut(1, b"\x51")], 1 << 32))):
        b = P.block(H["version"], H["prev"], H["root"], H["time"], H["bits"], H["nonce"])
        b.set_txs([good, tx], check_merkle_hash=False)
        setattr(X, name, b)
    return X


def judge_errpath(net, data, bad, m, plan, rec):
    """One honest block `data` (and `bad`: the same header over other transactions), a full block object and a header object
    of it that live through the whole sequence. Calls the library rightly refuses are interleaved with judged calls; every
    judged answer is what it is without the refusals. A refusal is never judged."""
    N = _net(net)
    other = "LTC" if net == "BTC" else "BTC"
    case = {"kind": "errpath", "net": net, "data": data, "bad": bad, "matches": list(m), "plan": plan}
    rec.case(("errpath", net, data, bad, repr(m), repr(plan)))
    rec.ev("cfg:%s:errpath" % net)
    header, txs, used = RB.parse_block(data)
    bheader, btxs, used = RB.parse_block(bad)
    if RB.root_of(txs) != header["root"] or RB.root_of(btxs) == header["root"] or bheader != header:
        raise RuntimeError("judge_errpath: generator error")
    txids = [RT.txid_bytes(t) for t in txs]
    total, hashes, fb = RP.build(txids, m)
    I = {"data": data, "bad": bad, "header": header, "txids": txids, "proof": (total, hashes, fb),
         "want": [txids[i] for i in sorted(m)], "proof_msg": proof_msg(header, total, hashes, fb)}
    k = (len(hashes) * 7 + total) % len(hashes)
    I["corrupt_proof_msg"] = proof_msg(header, total, hashes[:k] + [_flip(hashes[k], (total * 13) % 256)] + hashes[k + 1:], fb)
    st, full = observe(N.block.from_bin, data)
    st2, hdr = observe(N.block.parse_as_header, io.BytesIO(data[:80]))
    if st != "ok" or st2 != "ok":
        rec.violation("block.parse_rejects_valid" if st != "ok" else "header.parse_raises", case, full if st != "ok" else hdr, "object")
        return
    good_txs = list(full.txs)
    objs = {"full": [full, dict(header), True, "from_bin_full"], "hdr": [hdr, dict(header), False, "parse_as_header"]}

    def judged(op, which, c, salt, r):
        obj, cur, has_txs, kind = objs[which]
        if op in OBJECT_OPS:
            return _object_op(N, obj, cur, has_txs, kind, I, op, c, salt, r)
        if op == "parse_proof":
            judge_proof(net, I["proof_msg"], "honest", I["want"], r)
        elif op == "parse_corrupt_proof":
            judge_proof(net, I["corrupt_proof_msg"], "hash_bit", None, r)
        elif op == "from_bin":
            r.ev("Block.from_bin")
            st, b = observe(N.block.from_bin, data)
            if st != "ok":
                r.violation("block.parse_rejects_valid", c, b, "block")
                return False
            st, out = observe(b.as_bin)
            if st != "ok" or out != data:
                r.violation("block.roundtrip_mismatch", c, out, data)
                return False
            _judge_id(b, data, c, r)
        elif op == "badroot":
            r.ev("BadMerkleRoot:Block.from_bin")
            st, b = observe(N.block.from_bin, bad)
            if st == "ok":
                r.violation("block.accepts_bad_merkle_root.from_bin", c, "accepted", "BadMerkleRootError")
            r.ev("BadMerkleRoot:message.parse(block)")
            st, b = bounded(N.message.parse, "block", bad)
            if st == "ok":
                r.violation("block.accepts_bad_merkle_root.message_parse", c, "accepted", "BadMerkleRootError")
        elif op == "merkle":
            from pycoin.merkle import merkle
            from pycoin.encoding.hash import double_sha256
            r.ev("merkle")
            for args in ((list(txids),), (list(txids), double_sha256)):
                st, v = observe(merkle, *args)
                if st != "ok" or bytes(v) != header["root"]:
                    r.violation("merkle.root_mismatch", c, v, header["root"])
                    return False
        elif op == "new_header":
            judge_header(net, RB.ser_header(objs["hdr"][1]), r)
        else:
            raise ValueError(op)
        return True

    # the judged calls once before anything was refused: a fault that needs no refusal is not reported as an error-path fault
    n0 = sum(rec.viol_count.values())
    for i, op in enumerate(ERR_JUDGED):
        if op in ("set_nonce", "alias_blockheader"):
            continue
        for which in ("full", "hdr"):
            judged(op, which, dict(case, step=-1, op=op, which=which), plan["nonce_salt"] + i, rec)
    if sum(rec.viol_count.values()) != n0:
        rec.ev("errpath:baseline_not_clean")
        return
    pr = _PrefixRec(rec, "after_refusal.")
    refused_before = False
    ctxs = {}
    for step, (what, name, arg) in enumerate(plan["steps"]):
        c = dict(case, step=step)
        if what == "refuse":
            rec.ev("errpath:attempt:" + name)
            if arg == "other":
                rec.ev("errpath:attempt_on_other_network")
            if arg not in ctxs:
                ctxs[arg] = observe(_errpath_ctx, net, other, I, objs, arg, rec)
            st, X = ctxs[arg]
            if st != "ok":
                rec.ev("errpath:material_unavailable")
                rec.note("material of refusal %s could not be built: %r" % (name, X))
                continue
            st, thunks = observe(REFUSALS[name][1], X)
            if st != "ok":
                rec.ev("errpath:material_unavailable")
                rec.note("material of refusal %s could not be built: %r" % (name, thunks))
                continue
            for t in thunks:
                st, e = bounded(t)
                if st == "exc":
                    rec.ev("errpath:refused")
                    rec.ev("errpath:refused:" + name)
                    refused_before = True
                elif st == "ok":
                    rec.ev("errpath:not_refused:" + name)          # the library may accept more than it must: not judged
        elif what == "object_refuse":
            obj, cur, has_txs, kind = objs[arg]
            rec.ev("errpath:attempt:" + name)
            if name.startswith("set_nonce"):
                v = (1 << 32) if name == "set_nonce_2_32" else None
                observe(obj.set_nonce, v)
                for fn in (obj.hash, obj.id, obj.as_bin, lambda: obj.stream(io.BytesIO())):
                    st, e = observe(fn)
                    rec.ev("errpath:refused" if st == "exc" else "errpath:not_refused:" + name)
                    if st == "exc":
                        rec.ev("errpath:refused:" + name)
                        refused_before = True
                st, e = observe(obj.set_nonce, cur["nonce"])
                if st != "ok":
                    pr.violation("block.set_nonce_raises", c, e, None)
                    return
            else:
                lst = good_txs[:len(good_txs) // 2] + [None]
                if name == "set_txs_bad_list":
                    lst = list(N.block.parse(io.BytesIO(bad), check_merkle_hash=False).txs)
                st, e = observe(obj.set_txs, lst)
                rec.ev("errpath:refused" if st == "exc" else "errpath:not_refused:" + name)
                if st == "exc":
                    rec.ev("errpath:refused:" + name)
                    refused_before = True
                rec.ev("Block.set_txs")
                st, e = observe(obj.set_txs, list(good_txs))
                if st != "ok":
                    pr.violation("block.history.set_txs_rejects_valid_after_refusal", c, e, None)
                    return
        else:
            if refused_before:
                rec.ev("errpath:judged_after_refusal")
                if name in ERR_PACK_OPS:
                    rec.ev("errpath:packed_after_refusal")
            ok = judged(name, arg, dict(c, op=name, which=arg), plan["nonce_salt"] + 31 * step, pr if refused_before else rec)
            if not ok or pr.count:
                return


def judge_mutable(net, data, m, rec):
    """caller-owned mutable arguments (lists, bytearrays) are not modified by a call and give the same answer when handed over
    again; containers the library returned, edited by the caller, do not change later answers."""
    N = _net(net)
    Block = N.block
    from pycoin.merkle import merkle
    header, txs, used = RB.parse_block(data)
    if RB.root_of(txs) != header["root"]:
        raise RuntimeError("judge_mutable: generator error")
    txids = [RT.txid_bytes(t) for t in txs]
    root = header["root"]
    case = {"kind": "mutable", "net": net, "data": data, "matches": list(m)}
    rec.case(("mutable", net, data, repr(m)))
    rec.ev("cfg:%s:mutable" % net)
    # merkle(list) / merkle(list of bytearray) / merkle(tuple), each object handed over twice
    for form in ("list", "list_of_bytearray", "tuple", "list_custom_f"):
        arg = [bytearray(t) for t in txids] if form == "list_of_bytearray" else tuple(txids) if form == "tuple" else list(txids)
        f, ref_f = _hash_f("sha256" if form == "list_custom_f" else "default")
        want = RM.root_with(txids, ref_f)
        for rnd in range(2):
            rec.ev("merkle")
            st, r = observe(merkle, arg) if f is None else observe(merkle, arg, f)
            if st != "ok":
                if form in ("list", "list_custom_f"):
                    rec.violation("merkle.root_mismatch", dict(case, form=form), r, want)
                else:
                    rec.ev("mutable:not_accepted:merkle_" + form)
                break
            rec.ev("mutable:merkle_" + form)
            if len(arg) != len(txids) or [bytes(x) for x in arg] != txids:
                rec.violation("mutable.merkle_modifies_its_argument", dict(case, form=form), [bytes(x) for x in arg], txids)
                break
            if bytes(r) != want:
                rec.violation("mutable.merkle_wrong_on_second_call" if rnd else "merkle.root_mismatch", dict(case, form=form), r, want)
                break
    # parsing out of a caller's bytearray; the caller then reuses its buffer
    total, hashes, fb = RP.build(txids, m)
    want = [txids[i] for i in sorted(m)]
    pmsg = proof_msg(header, total, hashes, fb)
    for what in ("from_bin", "message_block", "message_merkleblock"):
        src = pmsg if what == "message_merkleblock" else data
        ba = bytearray(src)
        got = []
        for rnd in range(2):
            st, v = bounded(Block.from_bin, ba) if what == "from_bin" else bounded(N.message.parse, what[8:], ba)
            if st != "ok":
                rec.ev("mutable:not_accepted:%s_bytearray" % what)
                break
            got.append(v)
            rec.ev("mutable:%s_bytearray" % what)
            if bytes(ba) != src:
                rec.violation("mutable.parse_modifies_its_argument", dict(case, what=what), bytes(ba), src)
                break
        if len(got) == 2:
            for i in range(len(ba)):
                ba[i] = 0xEE
            for v in got:
                if what == "message_merkleblock":
                    ok = [bytes(h) for h in v["tx_hashes"]] == want and _hdr_fields(v["header"]) == header and \
                        [bytes(h) for h in v["hashes"]] == hashes
                else:
                    b = v if what == "from_bin" else v["block"]
                    st, out = observe(b.as_bin)
                    st2, h = observe(b.hash)
                    st3, e = observe(b.check_merkle_hash)
                    ok = st == "ok" and out == data and st2 == "ok" and bytes(h) == RT.dsha(data[:80]) and st3 == "ok"
                if not ok:
                    rec.violation("mutable.parsed_object_follows_callers_buffer", dict(case, what=what), "changed", "as parsed")
                    break
    # packing: the caller's containers are not modified, the same containers give the same message again
    st, hobj = observe(Block.parse_as_header, io.BytesIO(data[:80]))
    if st == "ok":
        for form in ("lists", "bytearrays", "tuples"):
            hs = [bytearray(h) for h in hashes] if form == "bytearrays" else tuple(hashes) if form == "tuples" else list(hashes)
            fl = bytearray(fb) if form == "bytearrays" else tuple(fb) if form == "tuples" else list(fb)
            entries = [[hobj, 0], [hobj, 1]] if form == "lists" else [(hobj, 0), (hobj, 1)]
            if form == "tuples":
                entries = tuple(entries)
            href = P2P.encode("headers", {"headers": [{"header": header, "txn_count": 0}, {"header": header, "txn_count": 1}]})
            for rnd in range(2):
                rec.ev("message.pack(merkleblock)")
                st, out = observe(N.message.pack, "merkleblock", header=hobj, total_transactions=total, hashes=hs, flags=fl)
                if st != "ok":
                    if form == "lists":
                        rec.violation("pack.merkleblock_raises.header_only", dict(case, form=form), out, "packed message")
                    else:
                        rec.ev("mutable:not_accepted:pack_" + form)
                    break
                rec.ev("mutable:pack_" + form)
                if len(hs) != len(hashes) or [bytes(h) for h in hs] != hashes or bytes(fl) != bytes(fb):
                    rec.violation("mutable.pack_modifies_its_argument", dict(case, form=form), "containers changed", "unchanged")
                    break
                if out != pmsg:
                    rec.violation("mutable.pack_wrong_on_second_call" if rnd else "pack.merkleblock_not_wire_format.header_only",
                                  dict(case, form=form), out, pmsg)
                    break
                rec.ev("message.pack(headers)")
                st, out = observe(N.message.pack, "headers", headers=entries)
                if st != "ok":
                    rec.ev("mutable:not_accepted:pack_headers_" + form)
                    break
                if len(entries) != 2 or [(e[0], e[1]) for e in entries] != [(hobj, 0), (hobj, 1)]:
                    rec.violation("mutable.pack_modifies_its_argument", dict(case, form=form), "entries changed", "unchanged")
                    break
                if out != href:
                    rec.violation("mutable.pack_wrong_on_second_call" if rnd else "pack.headers_not_wire_format", dict(case, form=form),
                                  out, href)
                    break
    # set_txs(list): the caller's list is the caller's
    st, b = observe(Block.from_bin, data)
    if st == "ok":
        lst = list(b.txs)
        snap = list(lst)
        fresh = Block(header["version"], header["prev"], header["root"], header["time"], header["bits"], header["nonce"])
        rec.ev("Block.set_txs")
        st, e = observe(fresh.set_txs, lst)
        if st != "ok":
            rec.violation("block.set_txs_rejects_valid", case, e, None)
        elif len(lst) != len(snap) or any(x is not y for x, y in zip(lst, snap)):
            rec.violation("mutable.set_txs_modifies_its_argument", case, len(lst), len(snap))
        else:
            rec.ev("mutable:set_txs_list")
    # containers handed out by the parser, edited by the caller; the same bytes parsed again
    for rnd in range(2):
        st, d = bounded(N.message.parse, "merkleblock", pmsg)
        if st != "ok":
            break
        for key in ("tx_hashes", "hashes", "flags"):
            v = d.get(key)
            if isinstance(v, list):
                v.append(b"\xee" * 32 if key != "flags" else 0xff)
                v.reverse()
                rec.ev("mutable:returned_list_edited")
            elif isinstance(v, bytearray):
                v[:] = b"\xee" * len(v)
        observe(d["header"].set_nonce, (header["nonce"] ^ 0x5555) & 0xffffffff)
        d.clear()
        st, d2 = bounded(N.message.parse, "block", data)
        if st == "ok":
            observe(d2["block"].set_nonce, (header["nonce"] ^ 0x3333) & 0xffffffff)
            observe(d2["block"].set_txs, [])
    rec.ev("mutable:reparsed_after_edit")
    pr = _PrefixRec(rec, "after_edit_of_returned_container.")
    judge_proof(net, pmsg, "honest", want, pr)
    st, b = observe(Block.from_bin, data)
    if st != "ok" or b.as_bin() != data or bytes(b.hash()) != RT.dsha(data[:80]):
        pr.violation("block.roundtrip_mismatch", case, b, data)
    st, d2 = bounded(N.message.parse, "block", data)
    if st != "ok" or d2["block"].as_bin() != data:
        pr.violation("block.roundtrip_mismatch", case, d2, data)


def run_errpath(spec, rec):
    net = spec["net"]
    rng = shard_rng(spec["seed"], PROPERTY, spec["tier"], _rs(spec))
    sizes = [1, 2, 3, 4, 5, 7, 8, 9, 12, 16, 17, 33]
    for rep in range(spec["reps"]):
        n = sizes[rep % len(sizes)]
        header, txs = G.rand_block(rng, n)
        data = RB.ser_block(header, txs)
        alts = [t2 for c, h2, t2 in _alterations(header, txs, rng) if h2 is header and RB.root_of(t2) != header["root"]]
        bad = RB.ser_block(header, rng.choice(alts))
        r = rng.random()
        m = list(range(n)) if r < 0.2 else [n - 1] if r < 0.4 else [i for i in range(n) if rng.random() < 0.5]
        judge_errpath(net, data, bad, m, gen_errpath_plan(rng), rec)
        judge_mutable(net, data, m, rec)
    rec.sample({"op": "refused calls between judged calls", "refusals": sorted(REFUSALS) + list(OBJECT_REFUSALS),
                "judged": list(ERR_JUDGED)})


# ------------------------------------------------------------------------- long runs: the n-th operation on one object / in one process

def _u32(v):
    return v.to_bytes(4, "little")


def _tiny_tx(tag, i):
    """a one-input one-output transaction written out field by field (version, inputs, outputs, lock time)"""
    prev = hashlib.sha256(b"%s/prev/%d" % (tag, i)).digest()
    return (_u32(1) + b"\x01" + prev + _u32(i & 3) + b"\x01\x51" + _u32(0xffffffff) + b"\x01" + (5000 + i).to_bytes(8, "little")
            + b"\x01\x51" + _u32(i & 0xffffffff))


def longrun_part(net, part, count, tag, rec):
    """more than 2**16 operations of one kind on ONE object (or on one process-wide function), each judged against a
    reference that is kept up incrementally. Stops at the first disagreement (the witness is the operation number)."""
    N = _net(net)
    Block = N.block
    from pycoin.merkle import merkle
    tagb = tag.encode()
    case = {"kind": "longrun", "net": net, "part": part, "count": count, "tag": tag}
    rec.case(("longrun", net, part, count, tag))
    base = {"version": 0x20000000, "prev": hashlib.sha256(tagb + b"prev").digest(), "root": hashlib.sha256(tagb + b"root").digest(),
            "time": 1600000000, "bits": 0x1d00ffff, "nonce": 0}
    hb = RB.ser_header(base)
    done = 0

    def bad(what, i, got, want):
        rec.violation("longrun.%s.%s" % (part, what), dict(case, operation=i, past_2_16=i >= 65536), got, want)

    if part == "set_nonce_hash":
        # one header object and one full block object: set_nonce / hash / id / as_bin
        body = b"\x01" + _tiny_tx(tagb, 0)
        full_h = dict(base, root=RT.dsha(_tiny_tx(tagb, 0)))
        objs = [(Block.parse_as_header(io.BytesIO(hb)), hb, b""), (Block.from_bin(RB.ser_header(full_h) + body), RB.ser_header(full_h), body)]
        for i in range(count):
            v = (i * 2654435761 + 12345) & 0xffffffff
            for obj, h0, tail in objs:
                obj.set_nonce(v)
                want = RT.dsha(h0[:76] + _u32(v))
                got = obj.hash()
                if got != want:
                    return bad("hash_mismatch", i, got, want)
                if i % 61 == 0 or i >= count - 3:
                    if not _hex_is(obj.id(), want[::-1].hex()):
                        return bad("id_mismatch", i, obj.id(), want[::-1].hex())
                    if obj.as_bin() != h0[:76] + _u32(v) + tail:
                        return bad("as_bin_mismatch", i, obj.as_bin(), h0[:76] + _u32(v) + tail)
                    if tail:
                        st, e = observe(obj.check_merkle_hash)
                        if st != "ok":
                            return bad("check_merkle_hash_rejects_valid", i, e, None)
            done += 1
    elif part == "merkle":
        # the process-wide function: fresh two- and three-entry lists, earlier lists asked again
        hs = [hashlib.sha256(tagb + b"leaf").digest()]
        for i in range(count):
            hs.append(hashlib.sha256(hs[-1]).digest())
            j = i if i % 8 else max(0, i - 1 - (i * 7919) % 40000)          # every 8th call repeats an earlier list
            a, b = hs[j], hs[j + 1]
            if i % 2:
                want = RT.dsha(RT.dsha(a + b) + RT.dsha(a + a))
                got = merkle([a, b, a])
            else:
                want = RT.dsha(a + b)
                got = merkle([a, b])
            if got != want:
                return bad("root_mismatch", i, got, want)
            done += 1
    elif part in ("parse_proof", "pack_proof"):
        # one network's parser / packer: proofs over two-transaction blocks; every 16th parsed proof carries a wrong root
        a = hashlib.sha256(tagb + b"tx").digest()
        shapes = ((3, (0,)), (5, (1,)), (7, (0, 1)), (0, ()))
        for i in range(count):
            b = hashlib.sha256(a).digest()
            root = RT.dsha(a + b)
            flag, m = shapes[i & 3]
            hashes = [a, b] if m else [root]
            msg = hb[:36] + root + hb[68:] + _u32(2) + bytes([len(hashes)]) + b"".join(hashes) + b"\x01" + bytes([flag])
            if i < 8:
                t, h2, f2 = RP.build([a, b], list(m))
                if proof_msg(dict(base, root=root), t, h2, f2) != msg:
                    rec.ev("inconclusive:longrun_proof_encoding")
                    rec.note("long-run proof bytes differ from refs/pmt + refs/p2p")
                    return
            if part == "parse_proof":
                if i % 16 == 5:
                    st, d = bounded(N.message.parse, "merkleblock", msg[:36] + _flip(root, i % 256) + msg[68:])
                    if st != "exc":
                        return bad("accepts_root_altered", i, d, "exception")
                st, d = bounded(N.message.parse, "merkleblock", msg)
                if st != "ok":
                    return bad("rejects_honest_proof", i, d, [(a, b)[k] for k in m])
                if [bytes(x) for x in d["tx_hashes"]] != [(a, b)[k] for k in m]:
                    return bad("wrong_matches", i, d["tx_hashes"], [(a, b)[k] for k in m])
            else:
                st, out = observe(N.message.pack, "merkleblock", header=Block.parse_as_header(io.BytesIO(msg[:80])),
                                  total_transactions=2, hashes=hashes, flags=[flag])
                if st != "ok" or out != msg:
                    return bad("not_wire_format", i, out, msg)
            a = b
            done += 1
    elif part == "from_bin":
        # the block class's parser: one-transaction blocks; every 16th has a wrong root
        for i in range(count):
            tx = _tiny_tx(tagb, i)
            data = hb[:36] + RT.dsha(tx) + hb[68:76] + _u32(i) + b"\x01" + tx
            if i < 4:
                hd, txs, used = RB.parse_block(data)
                if RB.root_of(txs) != hd["root"] or RB.ser_block(hd, txs) != data:
                    rec.ev("inconclusive:longrun_block_encoding")
                    return
            if i % 16 == 3:
                st, b = observe(Block.from_bin, data[:36] + _flip(data[36:68], i % 256) + data[68:])
                if st == "ok":
                    return bad("accepts_bad_merkle_root", i, "accepted", "BadMerkleRootError")
            st, b = observe(Block.from_bin, data)
            if st != "ok":
                return bad("rejects_valid", i, b, "block")
            if b.as_bin() != data:
                return bad("roundtrip_mismatch", i, b.as_bin(), data)
            if b.hash() != RT.dsha(data[:80]):
                return bad("hash_mismatch", i, b.hash(), RT.dsha(data[:80]))
            done += 1
    else:
        raise ValueError(part)
    rec.ev("longrun:%s:operations" % part, done)
    if done > 65536 + 64:
        rec.ev("longrun:%s:past_2_16" % part)


HEADERS_TXN_COUNTS = (1, 252, 253, 254, 65535, 65536, 65537, 0xffffffff, 0x100000000, 0xffffffffffffffff)
SMALL_BOUNDARY_COUNTS = (252, 253, 254)


def all_matched_flag_bytes(n):
    """flag bytes of the honest proof that matches every transaction of an n-transaction block: one bit per tree node"""
    return (sum(RM.width(n, h) for h in range(RM.height(n) + 1)) + 7) // 8


def run_small_boundaries(spec, rec):
    """hash counts, flag-byte counts and 'headers' entry counts on both sides of the one-byte / three-byte compact-size boundary"""
    tag = "sb%s" % spec["seed"]
    for k, n in enumerate(SMALL_BOUNDARY_COUNTS):
        judge_bigcount("LTC" if k == 1 else "BTC", "proof", n, tag, rec)
        judge_bigcount("LTC" if k == 2 else "BTC", "headers", n, tag, rec)
    want = set(SMALL_BOUNDARY_COUNTS)
    for n in range(900, 1100):
        fbn = all_matched_flag_bytes(n)
        if fbn in want:
            want.discard(fbn)
            ids = G.fake_txids(tag, n)
            total, hashes, fb = RP.build(ids, list(range(n)))
            if len(fb) != fbn:
                rec.ev("inconclusive:flag_byte_count_formula")
                rec.note("all-matched proof of %d transactions has %d flag bytes, formula says %d" % (n, len(fb), fbn))
                continue
            rec.ev("csize_boundary_flag_bytes:%d" % fbn)
            judge_bigcount("BTC", "proof", n, tag, rec)


LONGRUN_PARTS = ("set_nonce_hash", "merkle", "parse_proof", "pack_proof", "from_bin")
BIG_COUNTS = (65535, 65536, 65537)
BIG_BLOCK_COUNTS = (65535, 65536)          # last count of the three-byte form, first of the five-byte form


def judge_bigcount(net, what, n, tag, rec):
    """counts on both sides of the three-byte / five-byte compact-size boundary: transactions of a block, hashes of a proof,
    entries of a 'headers' message, entries of merkle()"""
    N = _net(net)
    Block = N.block
    from pycoin.merkle import merkle
    tagb = tag.encode()
    case = {"kind": "bigcount", "net": net, "what": what, "n": n, "tag": tag}
    rec.case(("bigcount", net, what, n, tag))
    rec.ev("bigcount:%s:%d" % (what, n))
    base = {"version": 2, "prev": hashlib.sha256(tagb + b"prev").digest(), "root": b"\0" * 32, "time": 1600000000, "bits": 0x1d00ffff,
            "nonce": n}
    if what == "block":
        txb = [_tiny_tx(tagb, i) for i in range(n)]
        tids = [RT.dsha(x) for x in txb]
        root = RM.root(tids)
        data = RB.ser_header(dict(base, root=root)) + RT.csize(n) + b"".join(txb)
        rec.ev("Block.from_bin")
        st, b = bounded(Block.from_bin, data)
        if st != "ok":
            rec.violation("block.parse_rejects_valid", case, b, "block of %d txs" % n)
            return
        st, out = observe(b.as_bin)
        if st != "ok" or out != data:
            rec.violation("block.roundtrip_mismatch", case, "differs" if st == "ok" else out, "the parsed bytes")
        if len(b.txs) != n:
            rec.violation("block.tx_count_mismatch", case, len(b.txs), n)
        if bytes(b.hash()) != RT.dsha(data[:80]):
            rec.violation("block.hash_mismatch", case, b.hash(), RT.dsha(data[:80]))
        rec.ev("message.pack(block)")
        st, out = observe(N.message.pack, "block", block=b)
        if st != "ok" or out != data:
            rec.violation("pack.block_not_wire_format.full" if st == "ok" else "pack.block_raises.full", case,
                          "differs" if st == "ok" else out, "the block bytes")
        del b, out
        # last two transactions swapped: not this root
        bad = data[:80] + RT.csize(n) + b"".join(txb[:-2] + [txb[-1], txb[-2]])
        rec.ev("BadMerkleRoot:Block.from_bin")
        st, b = bounded(Block.from_bin, bad)
        if st == "ok":
            rec.violation("block.accepts_bad_merkle_root.from_bin", case, "accepted", "BadMerkleRootError")
    elif what == "merkle":
        ids = [hashlib.sha256(tagb + b"%d" % i).digest() for i in range(n)]
        want = RM.root(ids)
        rec.ev("merkle")
        st, r = observe(merkle, list(ids))
        if st != "ok" or bytes(r) != want:
            rec.violation("merkle.root_mismatch", case, r, want)
    elif what == "proof":
        ids = [hashlib.sha256(tagb + b"%d" % i).digest() for i in range(n)]
        root = RM.root(ids)
        h = dict(base, root=root)
        total, hashes, fb = RP.build(ids, list(range(n)))
        msg = proof_msg(h, total, hashes, fb)
        rec.ev("message.parse(merkleblock)")
        st, d = bounded(N.message.parse, "merkleblock", msg)
        if st != "ok":
            rec.violation("pmt.rejects_honest_proof", case, d, "all %d ids" % n)
        elif [bytes(x) for x in d["tx_hashes"]] != ids:
            rec.violation("pmt.wrong_matches", case, len(d["tx_hashes"]), n)
        obj = Block.parse_as_header(io.BytesIO(msg[:80]))
        rec.ev("message.pack(merkleblock)")
        st, out = observe(N.message.pack, "merkleblock", header=obj, total_transactions=total, hashes=hashes, flags=list(fb))
        if st != "ok" or out != msg:
            rec.violation("pack.merkleblock_not_wire_format.header_only" if st == "ok" else "pack.merkleblock_raises.header_only", case,
                          "differs" if st == "ok" else out, "reference encoding")
        k = n // 2
        st, d = bounded(N.message.parse, "merkleblock", proof_msg(h, total, hashes[:k] + [_flip(hashes[k], 9)] + hashes[k + 1:], fb))
        if st == "ok":
            rec.violation("pmt.accepts_hash_bit", case, "accepted", "exception")
    elif what == "headers":
        hs = [dict(base, nonce=i, root=hashlib.sha256(tagb + b"%d" % (i & 7)).digest()) for i in range(8)]
        raw = [RB.ser_header(h) for h in hs]
        objs = [Block.parse_as_header(io.BytesIO(r)) for r in raw]
        cnts = [HEADERS_TXN_COUNTS[(i // 5) % len(HEADERS_TXN_COUNTS)] if i % 5 == 0 else 0 for i in range(n)]
        want = RT.csize(n) + b"".join(raw[i & 7] + RT.csize(cnts[i]) for i in range(n))
        rec.ev("message.pack(headers)")
        st, out = observe(N.message.pack, "headers", headers=[(objs[i & 7], cnts[i]) for i in range(n)])
        if st != "ok" or out != want:
            rec.violation("pack.headers_not_wire_format" if st == "ok" else "pack.headers_raises", case,
                          "differs" if st == "ok" else out, "reference encoding")
            return
        rec.ev("message.parse(headers)")
        st, d = bounded(N.message.parse, "headers", want)
        if st != "ok":
            rec.violation("headers.parse_raises", case, d, "headers")
        elif len(d["headers"]) != n or any(_hdr_fields(h) != hs[i & 7] or k != cnts[i] for i, (h, k) in enumerate(d["headers"])):
            rec.violation("headers.roundtrip_mismatch", case, len(d["headers"]), n)
    else:
        raise ValueError(what)


def run_longrun(spec, rec):
    count = spec["count"]
    tag = "lr%s" % spec["seed"]
    for k, part in enumerate(LONGRUN_PARTS):
        longrun_part("BTC" if k % 2 == 0 else "LTC", part, count, tag, rec)
    for k, n in enumerate(BIG_COUNTS):
        for j, what in enumerate(("merkle", "proof", "headers", "block")):
            if what == "block" and n not in BIG_BLOCK_COUNTS:
                continue
            judge_bigcount("LTC" if (k + j) % 3 == 2 else "BTC", what, n, tag, rec)
    rec.sample({"op": "long run", "operations_per_part": count, "parts": list(LONGRUN_PARTS), "big_counts": list(BIG_COUNTS)})


BADROOT_CLASSES = ("value_bit", "lock_time_bit", "script_changed", "prevout_changed", "version_changed", "root_bit", "root_reversed",
                   "swapped", "swapped_last_two", "dropped_last", "dropped_first", "first_duplicated", "reversed", "appended_new",
                   "last_duplicated")


def run_shard(spec, rec):
    try:
        _run_shard(spec, rec)
    except _AbortShard as e:
        rec.note("shard workload ended early: %s (each is reported as a violation)" % e)


def _run_shard(spec, rec):
    kind = spec["kind"]
    if kind == "kinds":
        rec.require(*(["kind:" + k for k in OBJECT_KINDS] + ["message.pack(merkleblock)", "message.pack(headers)", "message.pack(block)",
                      "pack:full", "pack:header_only", "Block.stream", "Block.stream_header", "Block.as_blockheader", "proof:honest",
                      "Block.as_hex", "Block.as_bin", "Block.hash", "Block.id", "Block.set_nonce", "message.parse(headers)",
                      "message.parse(block)", "cfg:%s:kinds" % spec["net"]]))
        run_kinds(spec, rec)
    elif kind == "blocks":
        rec.require("Block.from_bin", "Block.as_bin", "Block.id", "Block.hash", "Block.parse_as_header", "Block.stream_header",
                    "BadMerkleRoot:Block.from_bin", "BadMerkleRootError raised", "Block.check_merkle_hash", "Block.set_txs", "merkle",
                    "Block.parse", "Block.parse(include_offsets)", "message.parse(block)", "Block.set_nonce",
                    "BadMerkleRoot:Block.parse", "BadMerkleRoot:Block.parse(include_offsets)", "BadMerkleRoot:message.parse(block)",
                    "BadMerkleRoot:Block.check_merkle_hash", "BadMerkleRoot:Block.set_txs", "witness_altered_block",
                    "last_repeated_same_root_block", *["badroot:" + c for c in BADROOT_CLASSES])
        rec.require(*SPECIAL_REQUIRED)
        rec.require(*["csize_boundary_tx_count:%d" % n for n in spec.get("csize_counts", ())])
        rec.require(*["cfg:%s:%s" % (spec["net"], c) for c in ("header", "block", "badroot")])
        run_blocks(spec, rec)
    elif kind == "merkle":
        rec.require("merkle", "merkle:special_entries")
        run_merkle(spec, rec)
    elif kind == "cve":
        rec.require("proof:cve_duplicate", "cve:both_copies_matched", "cve:first_copy_leaf_matched", "cve:second_copy_leaf_matched",
                    "cve:pair_supplied_as_hashes", "cfg:BTC:proof_corrupted", "cfg:LTC:proof_corrupted")
        rec.require("special:proof_honest", "special:proof_special_txid", *["special:proof_root:" + l for l in SPECIAL_HASHES])
        rec.require(*["csize_boundary_flag_bytes:%d" % n for n in SMALL_BOUNDARY_COUNTS])
        rec.require(*["bigcount:%s:%d" % (w, n) for w in ("proof", "headers") for n in SMALL_BOUNDARY_COUNTS])
        run_cve(spec, rec)
        run_special_proofs(spec, rec)
        run_small_boundaries(spec, rec)
    elif kind == "history":
        rec.require("merkle", "merkle(hash_f=custom)", "merkle(hash_f=double_sha256)", "history:custom_then_bitcoin",
                    "history:bitcoin_then_custom", "Block.from_bin", "BadMerkleRoot:Block.from_bin", "BadMerkleRoot:other_hash_f_root",
                    "Block.set_txs", "Block.check_merkle_hash", "BadMerkleRoot:Block.check_merkle_hash", "Block.set_nonce", "Block.id",
                    "proof:honest", "Block.as_blockheader.id")
        run_history(spec, rec)
    elif kind == "errpath":
        rec.require(*["errpath:attempt:" + n for n in list(REFUSALS) + list(OBJECT_REFUSALS)])
        rec.require("errpath:refused", "errpath:judged_after_refusal", "errpath:packed_after_refusal", "errpath:attempt_on_other_network",
                    "cfg:%s:errpath" % spec["net"], "cfg:%s:mutable" % spec["net"], "mutable:merkle_list", "mutable:pack_lists",
                    "mutable:set_txs_list", "mutable:reparsed_after_edit", "mutable:returned_list_edited", "message.pack(merkleblock)",
                    "message.pack(headers)", "message.pack(block)")
        run_errpath(spec, rec)
    elif kind == "longrun":
        rec.require(*["longrun:%s:past_2_16" % p for p in LONGRUN_PARTS])
        rec.require(*["bigcount:%s:%d" % (w, n) for w in ("merkle", "proof", "headers") for n in BIG_COUNTS])
        rec.require(*["bigcount:block:%d" % n for n in BIG_BLOCK_COUNTS])
        run_longrun(spec, rec)
    elif kind == "proofs":
        rec.require("message.parse(merkleblock)", "proof:honest", "proof:hash_bit", "proof:hash_appended", "proof:hash_inserted",
                    "proof:hash_removed", "proof:padding_bit", "proof:root_altered", "proof:extra_flag_byte_set", "proof:honest_again",
                    "cfg:BTC:proof_honest", "cfg:LTC:proof_honest", "cfg:BTC:proof_corrupted", "cfg:LTC:proof_corrupted",
                    "tree:power_of_two", "tree:odd_leaf_count", "tree:two_or_more_odd_levels", "tree:odd_level_at_height_2_or_more",
                    "subset:none", "subset:all", "subset:proper", "subset:matches_duplicated_right_edge")
        run_proofs(spec, rec)
    else:
        raise ValueError(kind)


def replay_case(case, rec):
    try:
        _replay_case(case, rec)
    except _AbortShard as e:
        rec.note("replay ended early: %s" % e)


def _replay_case(case, rec):
    kind = case["kind"]
    if kind == "header":
        judge_header(case["net"], case["data"], rec)
    elif kind == "block":
        judge_block(case["net"], case["data"], rec, pre=case.get("pre"))
    elif kind == "badroot":
        judge_badroot(case["net"], case["data"], rec, case.get("cls", "altered"), pre=case.get("pre"))
    elif kind == "merkle_history":
        judge_merkle_history(case["tag"], case["n"], case["ops"], rec)
    elif kind == "block_object_history":
        judge_block_object_history(case["net"], case["data"], case["bad"], rec)
    elif kind == "id_history":
        judge_id_history(case["net"], case["data"], case["ops"], rec)
    elif kind == "merkle":
        judge_merkle(case["hashes"], rec)
    elif kind == "merkle_fake":
        judge_merkle(G.fake_txids(case["tag"], case["n"]), rec)
    elif kind == "proof":
        judge_proof(case["net"], case["data"], case["cls"], case.get("want"), rec)
    elif kind == "kinds":
        judge_kinds(case["net"], case["blocks"], case["matches"], case["plan"], rec)
    elif kind == "errpath":
        judge_errpath(case["net"], case["data"], case["bad"], case["matches"], case["plan"], rec)
    elif kind == "mutable":
        judge_mutable(case["net"], case["data"], case["matches"], rec)
    elif kind == "longrun":
        longrun_part(case["net"], case["part"], case["count"], case["tag"], rec)
    elif kind == "bigcount":
        judge_bigcount(case["net"], case["what"], case["n"], case["tag"], rec)
    else:
        raise ValueError("unknown case kind %r" % kind)
