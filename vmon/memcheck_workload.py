"""Small OpenSSL-backend workload run under valgrind memcheck by the C01 / C02 sanitizer leg.

usage: python memcheck_workload.py <repo> <iterations> <seed> <out.json>

Drives only pycoin's ctypes/libcrypto path (multiply, raw_mul, G*k, inverse_mod with negative / zero / >= modulus
operands, sign, verify) on secp256k1 and secp256r1 and writes every (op, operands, result) so the calling shard can
compare them with the reference arithmetic. Prints nothing else; no verdict is made here.
"""
import json
import random
import sys


def main():
    repo, iters, seed, out = sys.argv[1], int(sys.argv[2]), sys.argv[3], sys.argv[4]
    sys.path.insert(0, repo)
    from pycoin.ecdsa.secp256k1 import secp256k1_generator as k1
    from pycoin.ecdsa.secp256r1 import secp256r1_generator as r1
    from pycoin.ecdsa.native.openssl import OpenSSL
    rng = random.Random("memcheck:%s" % seed)
    rows = []
    native = 0
    have = bool(OpenSSL) and any("Optimizations" in c.__qualname__ and "openssl" in c.__module__ for c in type(k1).__mro__)
    for i in range(iters):
        for name, g in (("secp256k1", k1), ("secp256r1", r1)):
            n = g.order()
            p = g.p()
            k = rng.choice([1, 2, n - 1, n + 1, -1, -n - 5, 2 ** 256 - 1, rng.randrange(1, n), rng.randrange(1, n)])
            P = g.raw_mul(rng.randrange(1, n))
            native += 1
            rows.append([name, "raw_mul", [k], list(g.raw_mul(k))])
            native += 1
            rows.append([name, "gmul", [k], list(g * k)])
            native += 2
            rows.append([name, "multiply", [list(P), k], list(k * P)])
            native += 1
            a = rng.choice([1, 2, -1, -2, n - 1, n + 1, 2 * n + 3, -n - 7, p + 5, rng.randrange(1, n), -rng.randrange(1, n), 2 ** 300 + 1])
            m = rng.choice([n, p])
            if a % m:
                rows.append([name, "inverse_mod", [a, m], g.inverse_mod(a, m)])
                native += 1
            if i % 7 == 0:
                rows.append([name, "inverse_mod0", [0, m], g.inverse_mod(0, m)])
                native += 1
            d = rng.choice([1, n - 1, rng.randrange(1, n)])
            z = rng.choice([1, n, 2 ** 256 - 1, rng.randrange(1, 2 ** 256)])
            r, s = g.sign(d, z)
            rows.append([name, "sign", [d, z], [r, s]])
            Q = g * d
            ok = g.verify(Q, z, (r, s))
            bad = g.verify(Q, z ^ 1 or 2, (r, s))
            rows.append([name, "verify", [list(Q), z, r, s], [ok, bad]])
            native += 12
    json.dump({"have_openssl": have, "iterations": iters, "native_calls_lower_bound": native,
               "rows": rows}, open(out, "w"))


if __name__ == "__main__":
    main()
