"""Worker process: python -m vmon.worker <spec.json> <out.json>

spec = {"property": "C11", "mode": "shard"|"selftest"|"known"|"replay", "tier":..., "seed":...,
        "shard": i, "repo": "/repo", ...check-specific keys...}
"""
import faulthandler
import importlib
import json
import os
import sys
import traceback


def main():
    faulthandler.enable()
    spec = json.load(open(sys.argv[1]))
    out_path = sys.argv[2]
    repo = os.path.realpath(spec["repo"])
    sys.path.insert(0, repo)
    sys.setrecursionlimit(max(sys.getrecursionlimit(), 3000))
    from vmon.probe import Rec, unjx
    rec = Rec(spec)
    out = {"ok": False}
    cov = None
    if os.environ.get("VMON_COVERAGE_DIR"):
        # reach audit (tools/reach.py): line/branch coverage of the tree under test while the monitors run
        import coverage
        cov = coverage.Coverage(data_file=os.path.join(os.environ["VMON_COVERAGE_DIR"], "cov"), data_suffix=True, branch=True,
                                include=[os.path.join(repo, "pycoin", "*")])
        cov.start()
    try:
        if not spec.get("no_pycoin"):
            import pycoin
            pf = os.path.realpath(pycoin.__file__)
            if not pf.startswith(repo + os.sep):
                raise RuntimeError("pycoin imported from %s, not from tree under test %s" % (pf, repo))
        if spec.get("preload_networks"):
            # process configuration: other coins' network objects are created in this order before the check touches
            # anything (state shared at class / module level between networks would show up as a difference)
            for sym in spec["preload_networks"]:
                try:
                    importlib.import_module("pycoin.symbols." + sym.lower())
                except Exception:
                    pass
            rec.ev("process_config:preloaded_networks")
        mod = importlib.import_module("vmon.checks." + spec["property"].lower())
        mode = spec["mode"]
        if mode == "selftest":
            res = mod.selftest(rec)
            out["selftest"] = res if res is not None else {}
        elif mode == "known":
            still = []
            for f in spec["findings"]:
                sub = Rec(spec)
                try:
                    mod.replay_case(unjx(f["witness"]), sub)
                except Exception:
                    sub.violation("replay.crash", f["witness"], traceback.format_exc()[-600:])
                mechs = set(sub.viol_count)
                if f["mechanism"] in mechs:
                    still.append(f["id"])
                rec.ev("known_probe")
            out["known_still_failing"] = still
        elif mode == "replay":
            mod.replay_case(unjx(spec["case"]), rec)
        else:
            mod.run_shard(spec, rec)
        out["ok"] = True
    except BaseException:
        out["error"] = traceback.format_exc()[-4000:]
    if cov is not None:
        cov.stop()
        cov.save()
    out.update(rec.result())
    tmp = out_path + ".tmp"
    with open(tmp, "w") as f:
        json.dump(out, f)
    os.replace(tmp, out_path)


if __name__ == "__main__":
    main()
