"""Runner: ./check <ID> quick|thorough  |  ./check <ID> --replay <file>

Fans the check's shards out over worker subprocesses (never multiprocessing.Pool),
merges what the monitors observed, classifies violations against
known_findings.json, writes evidence/<ID>.json and decides the three-valued verdict:
exit 0 held on what was observed / 1 VIOLATION / 2 INCONCLUSIVE.
"""
import hashlib
import importlib
import json
import os
import shutil
import subprocess
import sys
import time

ROOT = os.path.dirname(os.path.dirname(os.path.abspath(__file__)))
DEPS = os.path.join(ROOT, ".deps")
PY = "/venv/bin/python"


def ensure_deps():
    if not os.path.exists(os.path.join(DEPS, ".ok")):
        subprocess.run([os.path.join(ROOT, "setup.sh")], cwd=ROOT, stdout=subprocess.DEVNULL,
                       stderr=subprocess.DEVNULL, timeout=600)


def load_known(prop):
    import glob
    allf = []
    for p in [os.path.join(ROOT, "known_findings.json")] + sorted(glob.glob(os.path.join(ROOT, "findings", "*.json"))):
        if os.path.exists(p):
            allf += json.load(open(p)).get("findings", [])
    mine = [f for f in allf if f.get("property") == prop]
    return [f for f in mine if f.get("status") == "open"], [f for f in mine if f.get("status") == "fixed"]


def worker_env(repo, extra=None):
    env = dict(os.environ)
    env["PYTHONPATH"] = os.pathsep.join([repo, ROOT, DEPS])
    env["PYTHONDONTWRITEBYTECODE"] = "1"
    env.setdefault("PYTHONHASHSEED", "0")
    env["PYTHONFAULTHANDLER"] = "1"
    for k in ("PYCOIN_NATIVE", "PYCOIN_USE_PYTHON_RIPEMD160", "PYCOIN_LIBCRYPTO_PATH", "PYCOIN_LIBSECP256K1_PATH"):
        env.pop(k, None)
    for k, v in (extra or {}).items():
        if v is None:
            env.pop(k, None)
        else:
            env[k] = str(v)
    return env


WALL_BACKSTOP_S = int(os.environ.get("VERIF_WALL_BACKSTOP_S", "14400"))
_CLK = os.sysconf("SC_CLK_TCK")


def proc_cpu_s(pid):
    """user+system CPU seconds of a worker (and of children it has waited for); 0 when /proc cannot be read"""
    try:
        f = open("/proc/%d/stat" % pid).read()
        f = f[f.rindex(")") + 2:].split()
        return (int(f[11]) + int(f[12]) + int(f[13]) + int(f[14])) / _CLK
    except Exception:
        return 0.0


def run_specs(specs, repo, workdir, jobs, default_timeout, stop_pred=None):
    """Run worker specs with at most `jobs` concurrent subprocesses. Returns list of (spec, result|None, why)."""
    pending = list(enumerate(specs))
    running = []
    results = [None] * len(specs)
    stopped = False
    while pending or running:
        while pending and len(running) < jobs:
            i, spec = pending.pop(0)
            sp = os.path.join(workdir, "spec%d.json" % i)
            op = os.path.join(workdir, "out%d.json" % i)
            json.dump(spec, open(sp, "w"))
            cmd = spec.get("cmd_prefix", []) + [PY, "-X", "faulthandler", "-m", "vmon.worker", sp, op]
            errf = open(os.path.join(workdir, "err%d.txt" % i), "w")
            p = subprocess.Popen(cmd, cwd=ROOT, env=worker_env(repo, spec.get("env")), stdout=errf, stderr=errf)
            running.append((i, spec, p, op, time.time(), spec.get("timeout", default_timeout), errf))
        time.sleep(0.05)
        still = []
        for item in running:
            i, spec, p, op, t0, tmo, errf = item
            rc = p.poll()
            if rc is None:
                # watchdog: the budget is CPU time of the shard (a hang in a loop burns CPU whatever the load; wall time
                # on a loaded machine says nothing), with a generous wall-clock backstop for a process that only waits
                cpu = proc_cpu_s(p.pid)
                if cpu > tmo or time.time() - t0 > max(WALL_BACKSTOP_S, 4 * tmo):
                    p.kill()
                    p.wait()
                    errf.close()
                    results[i] = (spec, None, "watchdog after %ds cpu / %ds wall" % (cpu, time.time() - t0))
                else:
                    still.append(item)
                continue
            errf.close()
            if os.path.exists(op):
                try:
                    results[i] = (spec, json.load(open(op)), None if rc == 0 else "rc=%d" % rc)
                    if stop_pred is not None and stop_pred(results[i][1]):
                        # matrix mode (VERIF_STOP_AT_FIRST_VIOLATION=1): the verdict is already "violated"; do not spend
                        # the remaining shards' CPU
                        stopped = True
                except Exception as e:
                    results[i] = (spec, None, "unreadable output: %s" % e)
            else:
                tail = open(os.path.join(workdir, "err%d.txt" % i)).read()[-1500:]
                results[i] = (spec, None, "worker died rc=%s: %s" % (rc, tail))
        running = still
        if stopped:
            for item in running:
                item[2].kill()
                item[2].wait()
                item[6].close()
                results[item[0]] = (item[1], None, "not finished: stopped at first violation")
            for i, spec in pending:
                results[i] = (spec, None, "not run: stopped at first violation")
            break
    return results


def validate_evidence(ev):
    try:
        sys.path.insert(0, DEPS)
        import jsonschema
        schema_path = os.path.join(ROOT, "vmon", "EVIDENCE.schema.json")
        if not os.path.exists(schema_path):
            schema_path = "/root/.vp/EVIDENCE.schema.json"
        jsonschema.validate(ev, json.load(open(schema_path)))
        return None
    except ImportError:
        return None
    except Exception as e:
        return str(e)[:400]


def main(argv):
    if len(argv) < 2:
        print(__doc__)
        return 2
    prop = argv[0].upper()
    repo = os.path.realpath(os.environ.get("VERIF_REPO", "/repo"))
    seed = int(os.environ.get("VERIF_SEED", "0") or 0)
    jobs = int(os.environ.get("VERIF_JOBS", str(min(16, os.cpu_count() or 4))))
    ensure_deps()
    sys.path[:0] = [repo, ROOT, DEPS]
    mod = importlib.import_module("vmon.checks." + prop.lower())
    workdir = os.path.join(ROOT, ".work", "%s-%d" % (prop, os.getpid()))
    os.makedirs(workdir, exist_ok=True)
    try:
        if argv[1] == "--replay":
            return do_replay(mod, prop, argv[2], repo, workdir)
        tier = argv[1]
        if tier not in ("quick", "thorough"):
            tier = os.environ.get("VERIF_TIER", "quick")
        return do_check(mod, prop, tier, seed, repo, workdir, jobs)
    finally:
        shutil.rmtree(workdir, ignore_errors=True)


def do_replay(mod, prop, path, repo, workdir):
    rp = json.load(open(path))
    spec = {"property": prop, "mode": "replay", "repo": repo, "case": rp["case"], "tier": rp.get("tier", "quick"),
            "seed": rp.get("seed", 0), "env": rp.get("env")}
    (spec, res, why), = run_specs([spec], repo, workdir, 1, 3600)
    if res is None or not res.get("ok"):
        print("INCONCLUSIVE property=%s replay failed to run: %s" % (prop, why or res.get("error")))
        return 2
    print(json.dumps({"case": rp["case"], "violations_now": res["violations"]}, indent=1)[:20000])
    if res["viol_count"]:
        print("VIOLATION property=%s replay=%s" % (prop, path))
        return 1
    print("replay: no violation on this tree")
    return 0


def do_check(mod, prop, tier, seed, repo, workdir, jobs):
    t0 = time.time()
    open_known, fixed_known = load_known(prop)
    base = {"property": prop, "tier": tier, "seed": seed, "repo": repo}
    specs = []
    st = dict(base, mode="selftest", label="selftest")
    st.update(getattr(mod, "SELFTEST_SPEC", {}))
    specs.append(st)
    if open_known:
        specs.append(dict(base, mode="known", label="known", findings=[
            {"id": f["id"], "mechanism": f["mechanism"], "witness": f.get("witness")} for f in open_known
            if f.get("witness") is not None]))
    plan = mod.plan(tier, seed)
    orders = getattr(mod, "PRELOAD_NETWORK_ORDERS", None)
    for i, s in enumerate(plan):
        d = dict(base, mode="shard", shard=i)
        d.update(s)
        if orders and "preload_networks" not in d and i % 3:
            d["preload_networks"] = orders[(i % 3 - 1 + seed) % len(orders)]
        specs.append(d)
    # per-shard watchdog, in CPU seconds of the shard (see run_specs): only there to end a hang; its firing is "inconclusive",
    # never a verdict. Quick shards use seconds of CPU; their wall time was seen to reach minutes at load average > 200
    default_timeout = getattr(mod, "TIMEOUT", {}).get(tier, 900 if tier == "quick" else 6 * 3600)
    if os.environ.get("VERIF_WATCHDOG_S"):
        default_timeout = int(os.environ["VERIF_WATCHDOG_S"])
    stop_pred = None
    if os.environ.get("VERIF_STOP_AT_FIRST_VIOLATION"):
        open_mechs = {f["mechanism"] for f in open_known}
        stop_pred = lambda res: any(v.get("mech") not in open_mechs for v in res.get("violations", []))  # noqa: E731
    results = run_specs(specs, repo, workdir, jobs, default_timeout, stop_pred)

    counters, required, notes, samples = {}, set(), [], []
    evaluations = 0
    distinct = set()
    overflow = 0
    violations, viol_count = [], {}
    inconclusive = []
    selftest_info = None
    known_still = set()
    shard_walls = []
    for spec, res, why in results:
        label = spec.get("label") or "shard%s" % spec.get("shard")
        if res is None:
            inconclusive.append("%s: %s" % (label, why))
            continue
        if not res.get("ok"):
            if spec["mode"] == "selftest":
                inconclusive.append("oracle self-test failed: %s" % res.get("error", "")[-800:])
            else:
                inconclusive.append("%s crashed: %s" % (label, res.get("error", "")[-800:]))
        if spec["mode"] == "selftest":
            selftest_info = res.get("selftest")
            for k, v in res["counters"].items():
                counters["selftest:" + k] = counters.get("selftest:" + k, 0) + v
            continue
        if spec["mode"] == "known":
            known_still.update(res.get("known_still_failing", []))
            continue
        for k, v in res["counters"].items():
            counters[k] = counters.get(k, 0) + v
        evaluations += res["evaluations"]
        if len(distinct) < 6_000_000:          # bound the runner's memory; beyond it the count is conservative
            distinct.update(res["distinct"])
        else:
            overflow += len(res["distinct"])
        overflow += res["distinct_overflow"]
        required.update(res["required"])
        for s in res["samples"]:
            if len(samples) < 6:
                samples.append(s)
        for n in res["notes"]:
            if n not in notes and len(notes) < 40:
                notes.append(n)
        for v in res["violations"]:
            v["shard"] = spec.get("shard")
            v["env"] = spec.get("env")
            violations.append(v)
        for k, v in res["viol_count"].items():
            viol_count[k] = viol_count.get(k, 0) + v
        shard_walls.append(res["wall_s"])

    required.update(getattr(mod, "post_merge_requirements", lambda: [])())
    for r in sorted(required):
        if counters.get(r, 0) == 0:
            inconclusive.append("deciding monitor %r observed no events" % r)
    for k in sorted(counters):
        # a check that catches its own oracle / harness contradicting itself says so with an event named "inconclusive:<what>":
        # that is never a verdict about pycoin
        if k.startswith("inconclusive:") and counters[k]:
            inconclusive.append("%s (%d events)" % (k[len("inconclusive:"):], counters[k]))
    if evaluations == 0:
        inconclusive.append("no cases evaluated")

    known_mechs = {f["mechanism"]: f for f in open_known}
    new_viol = [v for v in violations if v["mech"] not in known_mechs]
    known_seen = {}
    for m, c in viol_count.items():
        if m in known_mechs:
            known_seen[known_mechs[m]["id"]] = c
    new_count = sum(c for m, c in viol_count.items() if m not in known_mechs)

    for f in open_known:
        if f["id"] in known_still or f["id"] in known_seen:
            print("KNOWN-FINDING: property=%s %s %s (observed %d times this run)" % (
                prop, f["id"], f["what"], known_seen.get(f["id"], 0)))

    replay_paths = []
    if new_viol:
        rdir = os.path.join(ROOT, "replays", prop) if repo == "/repo" else os.path.join(ROOT, ".work", "replays", prop)
        os.makedirs(rdir, exist_ok=True)
        seen_mech = {}
        for v in new_viol:
            if seen_mech.get(v["mech"], 0) >= 2 or len(replay_paths) >= 12:
                continue
            seen_mech[v["mech"]] = seen_mech.get(v["mech"], 0) + 1
            body = {"property": prop, "mechanism": v["mech"], "tier": tier, "seed": seed, "shard": v.get("shard"),
                    "env": v.get("env"), "case": v["case"], "observed": v["observed"], "expected": v["expected"],
                    "detail": v.get("detail")}
            h = hashlib.sha1(json.dumps([v["mech"], v["case"]], sort_keys=True).encode()).hexdigest()[:12]
            path = os.path.join(rdir, "%s.json" % h)
            json.dump(body, open(path, "w"), indent=1)
            rel = os.path.relpath(path, ROOT)
            replay_paths.append(rel)
            print("VIOLATION property=%s replay=%s mechanism=%s observed=%s expected=%s" % (
                prop, rel, v["mech"], json.dumps(v["observed"])[:160], json.dumps(v["expected"])[:160]))

    level = getattr(mod, "LEVEL", "exploration")
    coverage = {
        "evaluations": evaluations,
        "distinct_nontrivial": len(distinct),
        "rule": getattr(mod, "RULE", ""),
        "samples": samples,
        "events_per_operation": dict(sorted(counters.items())),
        "shards": len(plan),
        "exhaustive": bool(getattr(mod, "exhaustive", lambda t: False)(tier)),
        "explanation": getattr(mod, "EXPLANATION", ""),
        "oracle_selftest": selftest_info,
        "configurations": getattr(mod, "configurations", lambda t: [])(tier),
        "known_findings_observed": known_seen,
        "violation_mechanisms": {m: c for m, c in viol_count.items() if m not in known_mechs},
        "inconclusive_reasons": inconclusive,
        "notes": notes,
        "distinct_counting": "union over shards of 64-bit hashes of case keys, capped at %d per shard (%d cases past the cap not counted)" % (
            __import__("vmon.probe", fromlist=["x"]).DISTINCT_CAP, overflow),
        "verdict": "violated" if new_viol else ("inconclusive" if inconclusive else "held on what was observed"),
    }
    ev = {
        "property_id": prop, "tier": tier, "seed": seed, "level": level, "coverage": coverage,
        "assumptions": list(getattr(mod, "ASSUMPTIONS", [])),
        "wall_s": round(time.time() - t0, 2), "violations": new_count,
    }
    err = validate_evidence(ev)
    if err:
        inconclusive.append("evidence does not validate: " + err)
        coverage["inconclusive_reasons"] = inconclusive
    # evidence/ describes /repo itself; runs against a scratch tree (VERIF_REPO, mutant / seeded / benign matrices) never overwrite it
    evdir = os.path.join(ROOT, "evidence") if repo == "/repo" else os.path.join(ROOT, ".work", "evidence")
    os.makedirs(evdir, exist_ok=True)
    evtmp = os.path.join(evdir, ".%s.%d.tmp" % (prop, os.getpid()))
    with open(evtmp, "w") as f:
        json.dump(ev, f, indent=1, sort_keys=True)
    os.replace(evtmp, os.path.join(evdir, "%s.json" % prop))

    if new_viol:
        print("RESULT property=%s tier=%s violated: %d violating cases, %d mechanisms; evaluations=%d" % (
            prop, tier, new_count, len(coverage["violation_mechanisms"]), evaluations))
        return 1
    if inconclusive:
        for r in inconclusive:
            print("INCONCLUSIVE property=%s %s" % (prop, r))
        return 2
    print("RESULT property=%s tier=%s held on what was observed: evaluations=%d distinct_nontrivial=%d wall=%.1fs" % (
        prop, tier, evaluations, len(distinct), time.time() - t0))
    return 0


if __name__ == "__main__":
    sys.exit(main(sys.argv[1:]))
