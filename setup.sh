#!/bin/bash
# Offline bootstrap of third-party deps used by the monitors (icontract, deal, jsonschema).
# Idempotent; safe to run concurrently (flock).
set -e
cd "$(dirname "$0")"
DEPS="$PWD/.deps"
exec 9>"$PWD/.deps.lock"
flock 9
if [ -f "$DEPS/.ok" ]; then exit 0; fi
rm -rf "$DEPS"; mkdir -p "$DEPS"
PIP_NO_INDEX=1 /venv/bin/python -m pip install -q --no-index --find-links /opt/veriftools/wheels \
    --target "$DEPS" icontract deal jsonschema >/dev/null 2>"$PWD/.deps.err" || {
    echo "setup: pip install of monitor deps failed (see .deps.err); continuing without them" >&2
    exit 0
}
touch "$DEPS/.ok"
