#!/usr/bin/env python3
"""Print stored replay witnesses compactly: tools/show_replays.py C03 [substring]"""
import glob, json, sys
prop = sys.argv[1]
sub = sys.argv[2] if len(sys.argv) > 2 else ""
for p in sorted(glob.glob("/verif/replays/%s/*.json" % prop)):
    r = json.load(open(p))
    if sub not in r["mechanism"]:
        continue
    c = r["case"]
    print("==", p.split("/")[-1], r["mechanism"])
    if isinstance(c, dict) and "tx" in c:
        i = c["tx"]["ins"][c["n_in"]]
        d = {k: c.get(k) for k in ("k", "flags", "src", "sv", "amount") if k in c}
        d["flags"] = hex(d["flags"])
        if c["k"] == "eval":
            d["script"] = c["script"][:200]; d["stack"] = [s[:40] for s in c["stack"][:6]]
        else:
            d.update(scriptSig=i["script"][:300], spk=c["spk"][:300], wit=[w[:80] for w in i["witness"][:6]], ver=c["tx"]["version"], lt=c["tx"]["lock_time"], seq=i["sequence"])
        print("  ", json.dumps(d))
    else:
        print("  ", json.dumps(c)[:600])
    print("   observed:", json.dumps(r["observed"])[:200], "| expected:", json.dumps(r["expected"])[:200], "|", json.dumps(r.get("detail"))[:200])
