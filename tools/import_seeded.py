#!/usr/bin/env python3
"""tools/import_seeded.py <srcdir> <name> : validate a seeded change (tests, demo, checks) and store it under seeded/<name>/"""
import json, os, shutil, subprocess, sys
ROOT = os.path.dirname(os.path.dirname(os.path.abspath(__file__)))
src, name = os.path.abspath(sys.argv[1]), sys.argv[2]
extra = sys.argv[3:]
r = subprocess.run([os.path.join(ROOT, "tools", "try_seeded.py"), src] + extra, capture_output=True, text=True)
res = json.loads(r.stdout)
ok = res["demo_unchanged"] == 0 and res["demo_changed"] != 0 and res.get("tests_ok", False) and res["patch_applied"]
print(name, "valid" if ok else "INVALID", {k: v["status"] for k, v in res["checks"].items()})
if not ok:
    print(json.dumps(res, indent=1))
    sys.exit(1)
dst = os.path.join(ROOT, "seeded", name)
os.makedirs(dst, exist_ok=True)
for f in ("patch.diff", "demo.py"):
    shutil.copy(os.path.join(src, f), os.path.join(dst, f))
meta = json.load(open(os.path.join(src, "meta.json")))
meta["validated"] = {
    "by": "coordinator, scratch copy of /repo at %s" % subprocess.run(["git", "-C", "/repo", "log", "-1", "--format=%h"], capture_output=True, text=True).stdout.strip(),
    "ran": ["demo.py on unchanged tree -> exit %d" % res["demo_unchanged"], "demo.py with patch -> exit %d" % res["demo_changed"],
            "baseline suite with patch: %s" % res.get("tests")],
    "checks": res["checks"],
}
json.dump(meta, open(os.path.join(dst, "meta.json"), "w"), indent=1)
