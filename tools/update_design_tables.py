#!/usr/bin/env python3
"""Rewrite the generated tables of DESIGN.md (mutant kill matrix, seeded changes) between their markers.
usage: tools/update_design_tables.py <mutant-matrix-log> [more logs...]"""
import glob, json, os, re, sys
ROOT = os.path.dirname(os.path.dirname(os.path.abspath(__file__)))
rows = {}
for log in sys.argv[1:]:
    for line in open(log, errors="replace"):
        m = re.match(r"^(C\d\d)\s+(mutants/\S+|seeded/\S+)\s+(caught|MISSED|INCONCLUSIVE|PATCH-FAILED)\s+([\d.]+)s\s*(.*)$", line)
        if m:
            rows[m.group(2)] = (m.group(1), m.group(3), m.group(5).strip())


def describe(patch):
    f, minus, plus = "", [], []
    for l in open(os.path.join(ROOT, patch), errors="replace"):
        if l.startswith("+++ "):
            f = l[4:].split("\t")[0].strip().replace("b/", "", 1)
        elif l.startswith("-") and not l.startswith("---"):
            minus.append(l[1:].strip())
        elif l.startswith("+") and not l.startswith("+++"):
            plus.append(l[1:].strip())
    a = next((x for x in minus if x and not x.startswith("#")), "")
    b = next((x for x in plus if x and not x.startswith("#")), "")
    return f, (a[:60] + " -> " + b[:60]).replace("|", "\\|")


out = ["| check | mutant | file | change (first changed line) | result | violated mechanisms (first few) |", "|---|---|---|---|---|---|"]
for patch in sorted(rows, key=lambda p: (rows[p][0], p)):
    if not patch.startswith("mutants/"):
        continue
    prop, status, mech = rows[patch]
    f, d = describe(patch)
    out.append("| %s | %s | %s | `%s` | %s | %s |" % (prop, os.path.basename(patch).replace(".patch", ""), f.replace("pycoin/", ""), d, status, mech[:110].replace("|", "\\|")))
caught = sum(1 for p in rows if p.startswith("mutants/") and rows[p][1] == "caught")
total = sum(1 for p in rows if p.startswith("mutants/"))
out.append("")
out.append("%d of %d mutants caught by their check's quick tier." % (caught, total))
mut_table = "\n".join(out)

out = ["| id | property | change | needs, to manifest | at import | final quick tier | mechanisms reported |", "|---|---|---|---|---|---|---|"]
for m in sorted(glob.glob(os.path.join(ROOT, "seeded", "*", "meta.json"))):
    meta = json.load(open(m))
    name = os.path.basename(os.path.dirname(m))
    chk = meta.get("validated", {}).get("checks", {})
    st = "; ".join("%s: %s" % (k, v["status"]) for k, v in chk.items())
    mech = ", ".join(next(iter(chk.values()))["mechanisms"][:3]) if chk else ""
    out.append("| %s | %s | %s | %s | %s | %s | %s |" % (name, meta["property"], meta["summary"][:260].replace("|", "\\|").replace("\n", " "),
                                                  meta.get("needs", "")[:220].replace("|", "\\|").replace("\n", " "), meta.get("initial_status", ""), st, mech.replace("|", "\\|")))
seed_table = "\n".join(out)

out = ["| check | tier, seed | evaluations | distinct non-trivial | event counters | shards | configurations | wall (s) | verdict |", "|---|---|---|---|---|---|---|---|---|"]
for f in sorted(glob.glob(os.path.join(ROOT, "evidence", "C*.json"))) + sorted(glob.glob(os.path.join(ROOT, "evidence", "thorough", "C*.json"))):
    e = json.load(open(f))
    c = e["coverage"]
    out.append("| %s | %s, %s | %s | %s | %d | %s | %s | %s | %s |" % (
        e["property_id"], e["tier"], e["seed"], "{:,}".format(c.get("evaluations", 0)), "{:,}".format(c.get("distinct_nontrivial", 0)),
        len(c.get("events_per_operation", {})), len(c.get("shards", [])) if isinstance(c.get("shards"), list) else c.get("shards", ""),
        len(c.get("configurations", [])), e.get("wall_s", ""), c.get("verdict", "")))
ev_table = "\n".join(out)

p = os.path.join(ROOT, "DESIGN.md")
s = open(p).read()
for tag, body in (("KILL-MATRIX", mut_table), ("SEEDED", seed_table), ("EVIDENCE", ev_table)):
    b, e = "<!-- %s-BEGIN -->" % tag, "<!-- %s-END -->" % tag
    if b in s:
        s = s[:s.index(b) + len(b)] + "\n" + body + "\n" + s[s.index(e):]
    else:
        s += "\n%s\n%s\n%s\n" % (b, body, e)
open(p, "w").write(s)
print("mutants: %d/%d caught; seeded: %d" % (caught, total, len(seed_table.splitlines()) - 2))
