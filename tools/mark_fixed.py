#!/usr/bin/env python3
"""tools/mark_fixed.py <finding-id> <commit>: move an entry from findings/*.json to known_findings.json as fixed"""
import glob, json, subprocess, sys
fid, commit = sys.argv[1], sys.argv[2]
subj = subprocess.run(["git", "-C", "/repo", "log", "-1", "--format=%h %s", commit], capture_output=True, text=True).stdout.strip()
h, s = subj.split(" ", 1)
kf = json.load(open("/verif/known_findings.json"))
found = None
for p in glob.glob("/verif/findings/*.json"):
    d = json.load(open(p))
    keep = []
    for f in d["findings"]:
        if f["id"] == fid:
            found = f
        else:
            keep.append(f)
    if len(keep) != len(d["findings"]):
        d["findings"] = keep
        json.dump(d, open(p, "w"), indent=1)
if found is None:
    found = {"id": fid, "property": sys.argv[3] if len(sys.argv) > 3 else "?", "mechanism": sys.argv[4] if len(sys.argv) > 4 else "", "what": s[5:]}
found.update(status="fixed", commit=h, line="fixed: property=%s %s %s" % (found["property"], h, found.get("what", s[5:])))
found.pop("proposed_fix", None)
kf["findings"] = [f for f in kf["findings"] if f["id"] != fid] + [found]
json.dump(kf, open("/verif/known_findings.json", "w"), indent=1)
print("fixed", fid, h)
