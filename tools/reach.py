#!/usr/bin/env python3
"""Reach audit: tools/reach.py <ID> [tier]  — run a check under coverage restricted to the property's anchor files and list
what the workload did not execute. A guide for workload design, never a verdict."""
import glob, json, os, shutil, subprocess, sys, tempfile
ROOT = os.path.dirname(os.path.dirname(os.path.abspath(__file__)))
pid = sys.argv[1].upper()
tier = sys.argv[2] if len(sys.argv) > 2 else "quick"
prop = [json.loads(l) for l in open(os.path.join(ROOT, "properties.jsonl")) if json.loads(l)["id"] == pid][0]
d = tempfile.mkdtemp(prefix="reach-", dir=os.path.join(ROOT, ".work"))
evp = os.path.join(ROOT, "evidence", pid + ".json")
saved = open(evp).read() if os.path.exists(evp) else None
env = dict(os.environ, VMON_COVERAGE_DIR=d)
r = subprocess.run([os.path.join(ROOT, "check"), pid, tier], cwd=ROOT, env=env, capture_output=True, text=True)
print(r.stdout.strip().splitlines()[-1] if r.stdout.strip() else r.stderr[-300:])
if saved is not None:
    open(evp, "w").write(saved)
sys.path.insert(0, "/venv/lib/python3.12/site-packages")
files = []
for f in prop["anchors"]["files"]:
    p = os.path.join("/repo", f)
    files += sorted(glob.glob(os.path.join(p, "*.py"))) if os.path.isdir(p) else [p]
script = """
import coverage, sys, json
cov = coverage.Coverage(data_file=%r + '/cov', branch=True)
cov.combine(data_paths=[%r], keep=False)
out = {}
for f in %r:
    try:
        _, stmts, _, missing, _ = cov.analysis2(f)
        out[f] = [len(stmts), missing]
    except Exception as e:
        out[f] = [0, str(e)]
print(json.dumps(out))
""" % (d, d, files)
o = subprocess.run(["/venv/bin/python", "-c", script], capture_output=True, text=True)
res = json.loads(o.stdout.strip().splitlines()[-1])
tot = miss = 0
for f, (n, missing) in res.items():
    if isinstance(missing, str):
        print("%-52s not measured (%s)" % (f.replace("/repo/", ""), missing[:60]))
        continue
    tot += n
    miss += len(missing)
    print("%-52s %4d stmts, %3d not executed %s" % (f.replace("/repo/", ""), n, len(missing), missing[:40] if missing else ""))
print("TOTAL %d statements in anchor files, %d executed (%.1f%%)" % (tot, tot - miss, 100.0 * (tot - miss) / max(1, tot)))
shutil.rmtree(d, ignore_errors=True)
