# source tools/mkbenign.sh; mkb <CHECKS+joined>-<name> <file> '<old>' '<new>'   -> benign/<name>.patch (behaviour-preserving change)
mkb () 
{ 
    d=$(mktemp -d /tmp/mk.XXXX);
    f=$2;
    mkdir -p $d/a/$(dirname $f) $d/b/$(dirname $f);
    cp /repo/$f $d/a/$f;
    cp /repo/$f $d/b/$f;
    python3 - "$d/b/$f" "$3" "$4" <<'E'
import sys
p,old,new=sys.argv[1:4]
s=open(p).read()
assert s.count(old)>=1, ("pattern not found", old)
open(p,'w').write(s.replace(old,new,1))
E

    ( cd $d && diff -u a/$f b/$f > /verif/benign/$1.patch );
    rm -rf $d
}
