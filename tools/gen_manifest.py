#!/usr/bin/env python3
"""Regenerate MANIFEST.json from the check modules that exist (vmon/checks/cNN.py)."""
import importlib
import json
import os
import sys

ROOT = os.path.dirname(os.path.dirname(os.path.abspath(__file__)))
sys.path.insert(0, ROOT)
props = [json.loads(l) for l in open(os.path.join(ROOT, "properties.jsonl"))]
base = json.load(open("/root/.vp/BASELINE.json"))["cmd"] if os.path.exists("/root/.vp/BASELINE.json") else \
    "cd /repo && /venv/bin/python -m pytest -ra -q -p no:cacheprovider --timeout=900 --continue-on-collection-errors --junitxml=<file>"
checks, na = [], []
for p in props:
    pid = p["id"]
    path = os.path.join(ROOT, "vmon", "checks", pid.lower() + ".py")
    ready = set(open(os.path.join(ROOT, "vmon", "ready.txt")).read().split())
    if not os.path.exists(path) or pid not in ready:
        na.append({"property_id": pid, "reason": "monitor still being built and validated (planned, see DESIGN.md section 5); not claimed at this commit"})
        continue
    mod = importlib.import_module("vmon.checks." + pid.lower())
    checks.append({
        "property_id": pid,
        "quick_cmd": "./check %s quick" % pid,
        "thorough_cmd": "./check %s thorough" % pid,
        "evidence_file": "evidence/%s.json" % pid,
        "replay_cmd_template": "./check %s --replay {path}" % pid,
        "engine": "vmon",
        "level_claimed": {
            "category": getattr(mod, "LEVEL", "exploration"),
            "text": getattr(mod, "LEVEL_TEXT", "Runtime monitoring: the real pycoin code is executed on generated, boundary-biased and (where the "
                    "space is finite) exhaustively enumerated workloads while a monitor compares every observed call/return with an "
                    "independent executable reference model. Holds on the executions observed; not a proof."),
            "design_ref": "DESIGN.md section 5, " + pid,
        },
        "level_note": getattr(mod, "LEVEL_NOTE", "Trusted: the reference models under vmon/refs (self-tested on every run against published vectors "
                      "and algebraic laws), CPython, hashlib. " + "; ".join(getattr(mod, "ASSUMPTIONS", []))),
        "technique": getattr(mod, "TECHNIQUE", "runtime monitoring: differential oracle at the API boundary"),
    })
m = {
    "version": 1,
    "setup_cmd": "./setup.sh",
    "hooks": {
        "guard": "PYCOIN_VERIF_HOOKS",
        "enable": "no source hooks: monitors attach from /verif at import time (wrappers, VM traceback_f tap); tree selected by VERIF_REPO (default /repo)",
        "baseline_off_cmd": base,
        "source_commits": [],
        "add_only": True,
    },
    "engines": [{"name": "vmon", "path": "vmon/", "serves_properties": [c["property_id"] for c in checks],
                 "kind_free_text": "runtime monitors: worker subprocess shards driving the real pycoin API, reference-model oracles, valgrind memcheck leg for the OpenSSL ctypes path"}],
    "checks": checks,
    "not_applicable": na,
    "notes": "exit 0 held on what was observed / 1 VIOLATION / 2 INCONCLUSIVE (monitor saw no events, worker crash, oracle self-test failed). Known findings: known_findings.json.",
}
json.dump(m, open(os.path.join(ROOT, "MANIFEST.json"), "w"), indent=1)
print("checks:", [c["property_id"] for c in checks], "na:", [n["property_id"] for n in na])
