#!/usr/bin/env python3
"""False-alarm matrix: apply each benign/<CHECKS>-<name>.patch (a behaviour-preserving change of pycoin: a different but equivalent
algorithm, a dropped cache, a reworded error message ...) to a scratch copy of /repo and run the named checks against it
(VERIF_REPO=<scratch>); every check must exit 0. <CHECKS> is '+'-joined property ids, e.g. C08+C10-key_no_memo.patch.

usage: tools/selftest_benign.py [--tier quick] [--tests] [name-substring ...]
"""
import glob
import os
import shutil
import subprocess
import sys
import tempfile
import time

ROOT = os.path.dirname(os.path.dirname(os.path.abspath(__file__)))


def main():
    args = sys.argv[1:]
    tier = "quick"
    run_tests = False
    sel = []
    while args:
        a = args.pop(0)
        if a == "--tier":
            tier = args.pop(0)
        elif a == "--tests":
            run_tests = True
        else:
            sel.append(a)
    bad = 0
    n = 0
    for p in sorted(glob.glob(os.path.join(ROOT, "benign", "*.patch"))):
        name = os.path.basename(p)[:-6]
        if sel and not any(s in name for s in sel):
            continue
        props = name.split("-")[0].split("+")
        d = tempfile.mkdtemp(prefix="vben-", dir="/tmp")
        try:
            subprocess.run(["rsync", "-a", "--exclude", ".git", "--exclude", "__pycache__", "/repo/", d + "/"], check=True)
            r = subprocess.run(["patch", "-p1", "-s", "-i", p], cwd=d, capture_output=True, text=True)
            if r.returncode != 0:
                print("%-48s PATCH-FAILED %s" % (name, r.stdout[-200:]), flush=True)
                bad += 1
                continue
            if run_tests:
                t = subprocess.run(["/venv/bin/python", "-m", "pytest", "-q", "-p", "no:cacheprovider", "-n", "8", "tests",
                                    "--deselect", "tests/cmds/test_cmds.py", "-k", "not fetch_unspent and not BlockchainInfo"],
                                   cwd=d, capture_output=True, text=True, env=dict(os.environ, PYTHONPATH=d, PYTHONDONTWRITEBYTECODE="1"))
                print("%-48s tests:%s %s" % (name, "pass" if (t.returncode == 0 or " 1822 passed" in t.stdout) else "FAIL", t.stdout.strip().splitlines()[-1][:100]), flush=True)
            for prop in props:
                n += 1
                t0 = time.time()
                c = subprocess.run([os.path.join(ROOT, "check"), prop, tier], cwd=ROOT, env=dict(os.environ, VERIF_REPO=d), capture_output=True, text=True)
                status = {0: "quiet", 1: "FALSE-ALARM", 2: "INCONCLUSIVE"}.get(c.returncode, "rc%d" % c.returncode)
                mech = [l.split("mechanism=")[1].split()[0] for l in c.stdout.splitlines() if l.startswith("VIOLATION") and "mechanism=" in l]
                print("%-48s %-4s %-12s %6.1fs %s" % (name, prop, status, time.time() - t0, ",".join(sorted(set(mech)))[:120]), flush=True)
                if c.returncode != 0:
                    bad += 1
        finally:
            shutil.rmtree(d, ignore_errors=True)
    print("\n%d/%d quiet" % (n - bad, n))
    return 1 if bad else 0


if __name__ == "__main__":
    sys.exit(main())
