#!/usr/bin/env python3
"""Seeded-fault matrix: apply each mutants/<ID>-*.patch (or seeded/<name>/patch.diff) to a scratch copy of /repo,
run `./check <ID> <tier>` with VERIF_REPO pointing at it and expect exit 1.

usage: tools/selftest_mutants.py [--tier quick] [--tests] [-j N] [ID-or-patch ...]
"""
import glob
import json
import os
import shutil
import subprocess
import sys
import tempfile
import time

ROOT = os.path.dirname(os.path.dirname(os.path.abspath(__file__)))


def scratch_copy():
    d = tempfile.mkdtemp(prefix="vmut-", dir="/tmp")
    subprocess.run(["rsync", "-a", "--exclude", ".git", "--exclude", "__pycache__", "/repo/", d + "/"], check=True)
    return d


def main():
    args = sys.argv[1:]
    tier = "quick"
    run_tests = False
    jobs = 1
    sel = []
    while args:
        a = args.pop(0)
        if a == "--tier":
            tier = args.pop(0)
        elif a == "--tests":
            run_tests = True
        elif a == "-j":
            jobs = int(args.pop(0))
        else:
            sel.append(a)
    patches = []
    for p in sorted(glob.glob(os.path.join(ROOT, "mutants", "*.patch"))):
        patches.append((os.path.basename(p).split("-")[0], p))
    for m in sorted(glob.glob(os.path.join(ROOT, "seeded", "*", "meta.json"))):
        meta = json.load(open(m))
        patches.append((meta["property"], os.path.join(os.path.dirname(m), "patch.diff")))
    if sel:
        patches = [(i, p) for i, p in patches if any(s == i or s in p for s in sel)]
    def one(item):
        prop, patch = item
        d = scratch_copy()
        try:
            r = subprocess.run(["patch", "-p1", "-s", "-i", patch], cwd=d, capture_output=True, text=True)
            if r.returncode != 0:
                return (prop, os.path.relpath(patch, ROOT), "PATCH-FAILED", 0, r.stdout[-200:].replace("\n", " "))
            tests = ""
            if run_tests:
                t = subprocess.run(["/venv/bin/python", "-m", "pytest", "-q", "-x", "-p", "no:cacheprovider", "-n", "8", "tests"],
                                   cwd=d, capture_output=True, text=True, env=dict(os.environ, PYTHONPATH=d, PYTHONDONTWRITEBYTECODE="1"))
                tests = "tests:" + ("pass" if t.returncode == 0 else "FAIL")
            t0 = time.time()
            # VERIF_REPO != /repo: the runner writes evidence and replays for the scratch tree under .work/, never under evidence/
            env = dict(os.environ, VERIF_REPO=d, VERIF_STOP_AT_FIRST_VIOLATION="1")
            if jobs > 1:
                env["VERIF_JOBS"] = str(max(4, 16 // jobs + 2))
            c = subprocess.run([os.path.join(ROOT, "check"), prop, tier], cwd=ROOT, env=env, capture_output=True, text=True)
            mech = [l.split("mechanism=")[1].split()[0] for l in c.stdout.splitlines() if l.startswith("VIOLATION") and "mechanism=" in l]
            status = {0: "MISSED", 1: "caught", 2: "INCONCLUSIVE"}.get(c.returncode, "rc%d" % c.returncode)
            if c.returncode == 2:
                print(c.stdout[-1500:])
            return (prop, os.path.relpath(patch, ROOT), status, round(time.time() - t0, 1), tests + " " + ",".join(sorted(set(mech)))[:150])
        finally:
            shutil.rmtree(d, ignore_errors=True)

    rows = []
    from concurrent.futures import ThreadPoolExecutor
    with ThreadPoolExecutor(max_workers=jobs) as ex:
        for row in ex.map(one, patches):
            rows.append(row)
            print("%-4s %-44s %-12s %6.1fs %s" % row, flush=True)
    missed = [r for r in rows if r[2] != "caught"]
    print("\n%d/%d caught" % (len(rows) - len(missed), len(rows)))
    return 1 if missed else 0


if __name__ == "__main__":
    sys.exit(main())
