#!/venv/bin/python
"""dev helper: run C03 generators in-process, print first witness per mechanism (optionally filtered)"""
import sys, os, json, random
repo = os.environ.get("VERIF_REPO", "/repo")
sys.path[:0] = [repo, "/verif"]
from vmon.probe import Rec, jx
from vmon.checks import c03
from vmon.gen import scriptgen as G
flt = sys.argv[1] if len(sys.argv) > 1 else ""
n = int(sys.argv[2]) if len(sys.argv) > 2 else 1
rec = Rec(); mon = c03.Monitor(rec); rng = random.Random(5); keys = G.Keys(); sg = G.SigGen(rng, keys)
dd = repo + "/tests/btc/data"
gens = [G.corpus_cases(dd), G.limit_cases(rng), G.witness_dispatch_cases(rng), G.opcode_matrix(rng, range(256), 20), sg.p2pk_like(2500), sg.multisig(500),
        G.locktime_cases(rng, 3000), G.random_scripts(rng, 8000), G.corpus_mutations(rng, dd, 12000)]
seen = {}
for g in gens:
    for case in g:
        before = len(rec.violations); bc = dict(rec.viol_count)
        mon.run(case)
        for m in rec.viol_count:
            if rec.viol_count[m] != bc.get(m, 0) and flt in m and seen.get(m, 0) < n:
                seen[m] = seen.get(m, 0) + 1
                r2 = Rec(); c03.replay_case(case, r2)
                i = case["tx"]["ins"][case["n_in"]]
                print("==", m, case["src"], "flags=%s" % hex(case["flags"]))
                if case["k"] == "eval":
                    print("   eval sv=%d script=%s stack=%s" % (case["sv"], case["script"].hex()[:300], [s.hex()[:30] for s in case["stack"][:8]]))
                else:
                    print("   sig=%s\n   spk=%s\n   wit=%s ver=%d lt=%d seq=%x amt=%d" % (i["script"].hex()[:400], case["spk"].hex()[:300], [w.hex()[:150] for w in i["witness"]][:8], case["tx"]["version"], case["tx"]["lock_time"], i["sequence"], case["amount"]))
                v = r2.violations[0]
                print("   pycoin:", v["observed"]["pycoin"], "consensus:", v["expected"]["consensus"])
                for nt in r2.notes: print("   ", nt[:700])
print(json.dumps(dict(sorted(rec.viol_count.items())), indent=0))
