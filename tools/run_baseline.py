#!/usr/bin/env python3
"""Run the repository's pinned baseline suite (hooks off) on a tree and check every stable_pass test still passes.
usage: tools/run_baseline.py [repo_dir]"""
import json, os, subprocess, sys, tempfile, xml.etree.ElementTree as ET
repo = sys.argv[1] if len(sys.argv) > 1 else "/repo"
base = json.load(open("/root/.vp/BASELINE.json"))
want = set(base["stable_pass"])
out = tempfile.mktemp(suffix=".xml", dir="/tmp")
env = dict(os.environ, PYTHONDONTWRITEBYTECODE="1", PYTHONPATH=repo)
env.pop("PYCOIN_VERIF_HOOKS", None)
subprocess.run(["/venv/bin/python", "-m", "pytest", "-q", "-p", "no:cacheprovider", "--timeout=900", "--continue-on-collection-errors",
                "-n", "12", "--junitxml=" + out], cwd=repo, env=env, stdout=subprocess.DEVNULL, stderr=subprocess.DEVNULL)
passed = set()
for tc in ET.parse(out).getroot().iter("testcase"):
    if not any(ch.tag in ("failure", "error", "skipped") for ch in tc):
        passed.add("%s::%s" % (tc.get("classname"), tc.get("name")))
os.remove(out)
missing = sorted(want - passed)
print("baseline: %d stable_pass, %d passed now, %d missing" % (len(want), len(passed & want), len(missing)))
for m in missing[:30]:
    print("  MISSING", m)
sys.exit(1 if missing else 0)
