#!/usr/bin/env python3
"""Validate one seeded change and run checks against it.
usage: tools/try_seeded.py <dir with patch.diff, demo.py, meta.json> [--checks C03,C04] [--tier quick] [--no-tests]"""
import json, os, shutil, subprocess, sys, tempfile, time
ROOT = os.path.dirname(os.path.dirname(os.path.abspath(__file__)))
d = os.path.abspath(sys.argv[1])
args = sys.argv[2:]
meta = json.load(open(os.path.join(d, "meta.json")))
checks = [meta["property"]]
tier = "quick"
tests = True
while args:
    a = args.pop(0)
    if a == "--checks":
        checks = args.pop(0).split(",")
    elif a == "--tier":
        tier = args.pop(0)
    elif a == "--no-tests":
        tests = False
scratch = tempfile.mkdtemp(prefix="vseed-", dir="/tmp")
out = {"dir": d, "property": meta["property"]}
try:
    subprocess.run(["rsync", "-a", "--exclude", ".git", "--exclude", "__pycache__", "/repo/", scratch + "/"], check=True)
    env0 = dict(os.environ, PYTHONDONTWRITEBYTECODE="1")
    r0 = subprocess.run(["/venv/bin/python", os.path.join(d, "demo.py")], env=dict(env0, PYTHONPATH=scratch), cwd=d, capture_output=True, text=True, timeout=900)
    out["demo_unchanged"] = r0.returncode
    p = subprocess.run(["git", "apply", "--directory", scratch.lstrip("/"), "--unsafe-paths", os.path.join(d, "patch.diff")], cwd="/", capture_output=True, text=True)
    if p.returncode != 0:
        p = subprocess.run(["patch", "-p1", "-s", "-i", os.path.join(d, "patch.diff")], cwd=scratch, capture_output=True, text=True)
    out["patch_applied"] = p.returncode == 0
    r1 = subprocess.run(["/venv/bin/python", os.path.join(d, "demo.py")], env=dict(env0, PYTHONPATH=scratch), cwd=d, capture_output=True, text=True, timeout=900)
    out["demo_changed"] = r1.returncode
    if tests:
        t = subprocess.run([os.path.join(ROOT, "tools", "run_baseline.py"), scratch], capture_output=True, text=True)
        out["tests"] = t.stdout.strip().splitlines()[0] if t.stdout else "?"
        out["tests_ok"] = t.returncode == 0
    out["checks"] = {}
    for c in checks:
        t0 = time.time()
        r = subprocess.run([os.path.join(ROOT, "check"), c, tier], cwd=ROOT, env=dict(os.environ, VERIF_REPO=scratch), capture_output=True, text=True)
        mech = sorted({l.split("mechanism=")[1].split()[0] for l in r.stdout.splitlines() if l.startswith("VIOLATION") and "mechanism=" in l})
        out["checks"][c] = {"exit": r.returncode, "status": {0: "MISSED", 1: "caught", 2: "INCONCLUSIVE"}.get(r.returncode, "?"), "wall_s": round(time.time() - t0, 1), "mechanisms": mech[:8]}
finally:
    shutil.rmtree(scratch, ignore_errors=True)
print(json.dumps(out, indent=1))
